package unit

import (
	"fmt"
	"math/rand"

	"github.com/orbs-network/lean-helix-go/services/interfaces"
	"github.com/orbs-network/lean-helix-go/services/logger"
	"github.com/orbs-network/lean-helix-go/services/messagesfactory"
	"github.com/orbs-network/lean-helix-go/services/rawmessagesfilter"
	"github.com/orbs-network/lean-helix-go/spec/types/go/primitives"
	"github.com/orbs-network/lean-helix-go/state"

	"verif/harness"
	"verif/spi"
)

// One operation on the real RawMessageFilter + real State.
type fop struct {
	Recv  bool   `json:"recv"`
	H     uint64 `json:"h"`               // height of the message / height to advance to
	Kind  int    `json:"kind,omitempty"`  // 0 peer of this instance, 1 sent by this node, 2 other instance
	Reent bool   `json:"reent,omitempty"` // delivering this message makes the handler start the next height (a commit during consumption)
}

func (o fop) String() string {
	if !o.Recv {
		return fmt.Sprintf("advance(%d)", o.H)
	}
	k := []string{"peer", "self", "other-instance"}[o.Kind]
	if o.Reent {
		k += ",commits"
	}
	return fmt.Sprintf("recv(h=%d,%s)", o.H, k)
}

type fmsg struct {
	id        int
	h         uint64
	kind      int
	reent     bool
	curAtRecv uint64
	may       bool // may be delivered (when its height starts / now)
	must      bool // must be delivered while its height lasts
	delivered int
	evictable bool
}

type recHandler struct {
	term uint64
	run  *frun
}

func (h *recHandler) HandleConsensusMessage(m interfaces.ConsensusMessage) error {
	// the message's identity travels in its block hash: type, view and sender repeat between messages
	id := 0
	switch x := m.(type) {
	case *interfaces.PrepareMessage:
		fmt.Sscanf(string(x.Content().SignedHeader().BlockHash()), "m%d", &id)
	case *interfaces.CommitMessage:
		fmt.Sscanf(string(x.Content().SignedHeader().BlockHash()), "m%d", &id)
	}
	h.run.onDeliver(h.term, id, uint64(m.BlockHeight()))
	return nil
}

type frun struct {
	st       *state.State
	filt     *rawmessagesfilter.RawMessageFilter
	cur      uint64
	msgs     []*fmsg
	viol     string
	rule     string
	inRecv   int             // id of the message being received (0: none)
	starting uint64          // height being started (ConsumeCacheMessages in progress), 0: none
	ended    map[uint64]bool // heights that ended while their batch was being consumed
	lastIdx  map[uint64]int
	delivs   int
	evicted  int
}

func (r *frun) fail(rule, format string, a ...interface{}) {
	if r.viol == "" {
		r.rule = rule
		r.viol = fmt.Sprintf(format, a...)
	}
}

func (r *frun) onDeliver(term uint64, id int, h uint64) {
	r.delivs++
	if id <= 0 || id > len(r.msgs) {
		r.fail("unknown-message-delivered", "term %d got unknown message id %d", term, id)
		return
	}
	m := r.msgs[id-1]
	if m.kind == 1 {
		r.fail("own-message-delivered", "message %d sent by this node reached term %d", id, term)
	}
	if m.kind == 2 {
		r.fail("other-instance-message-delivered", "message %d of another instance reached term %d", id, term)
	}
	if h != term || m.h != term {
		r.fail("delivered-to-another-height", "message %d of height %d reached the term of height %d", id, m.h, term)
	}
	if term != r.cur {
		r.fail("delivered-to-a-term-that-is-not-current", "message %d reached the handler of term %d while the node is at height %d", id, term, r.cur)
	}
	m.delivered++
	if m.delivered > 1 {
		r.fail("delivered-twice", "message %d (height %d) delivered %d times", id, m.h, m.delivered)
	}
	if !m.may {
		r.fail("past-height-message-delivered", "message %d of height %d was received at height %d (past) but was delivered", id, m.h, m.curAtRecv)
	}
	if last, ok := r.lastIdx[term]; ok && last > id {
		r.fail("delivered-out-of-arrival-order", "term %d got message %d after message %d", term, id, last)
	}
	r.lastIdx[term] = id
	// timing: a current-height message is delivered inside its own receive call, a future one while its height is being started
	if m.curAtRecv == m.h {
		if r.inRecv != id {
			r.fail("current-height-message-delivered-late", "message %d", id)
		}
	} else if r.starting != term {
		r.fail("future-message-delivered-outside-the-start-of-its-height", "message %d of height %d delivered while starting=%d", id, m.h, r.starting)
	}
	if m.reent {
		r.advance(term + 1)
	}
}

func (r *frun) advance(to uint64) {
	if to <= r.cur {
		return
	}
	if r.starting != 0 {
		r.ended[r.starting] = true
	}
	prevStarting := r.starting
	r.cur = to
	r.st.SetHeightAndResetView(primitives.BlockHeight(to))
	r.starting = to
	r.filt.ConsumeCacheMessages(&recHandler{term: to, run: r})
	r.starting = prevStarting
	// no-loss: what had to be delivered at the start of this height was delivered, unless the height ended during consumption
	if !r.ended[to] {
		for _, m := range r.msgs {
			if m.h == to && m.must && m.delivered == 0 {
				r.fail("cached-message-lost", "message %d of height %d was cached (nothing for a higher height was accepted before height %d started) but never delivered", m.id, m.h, to)
			}
		}
	}
}

var (
	c17Peer, c17Self, c17Other *messagesfactory.MessageFactory
)

func init() {
	k := spi.NewKeys([]string{"n0", "n3"})
	c17Peer = messagesfactory.NewMessageFactory(spi.InstanceId, k.Signer("n0"), primitives.MemberId("n0"), 0)
	c17Self = messagesfactory.NewMessageFactory(spi.InstanceId, k.Signer("n3"), primitives.MemberId("n3"), 0)
	c17Other = messagesfactory.NewMessageFactory(spi.OtherInstanceId, k.Signer("n0"), primitives.MemberId("n0"), 0)
}

func runFilterOps(ops []fop) *frun {
	st := state.NewState()
	cfg := &interfaces.Config{Membership: &spi.Membership{Me: "n3"}}
	lg := logger.NewLhLogger(cfg, st)
	r := &frun{st: st, filt: rawmessagesfilter.NewConsensusMessageFilter(spi.InstanceId, primitives.MemberId("n3"), lg, st), ended: map[uint64]bool{}, lastIdx: map[uint64]int{}}
	maxAccepted := uint64(0) // highest height accepted for caching so far
	for _, o := range ops {
		if r.viol != "" {
			break
		}
		if !o.Recv {
			r.advance(o.H)
			continue
		}
		m := &fmsg{id: len(r.msgs) + 1, h: o.H, kind: o.Kind, reent: o.Reent, curAtRecv: r.cur}
		r.msgs = append(r.msgs, m)
		if o.Kind == 0 {
			switch {
			case o.H == r.cur && r.cur > 0:
				m.may, m.must = true, true
			case o.H > r.cur:
				m.may = true // "either dropped or delivered in that same way"
				if o.H >= maxAccepted {
					m.must = true // accepted for caching; stays due unless a higher height is accepted before its height starts
				}
				if o.H > maxAccepted {
					// messages of lower future heights cached so far are no longer guaranteed
					for _, x := range r.msgs {
						if x != m && x.must && x.delivered == 0 && x.h > r.cur && x.h < o.H {
							x.must = false
							r.evicted++
						}
					}
					maxAccepted = o.H
				}
			}
		}
		f := c17Peer
		if o.Kind == 1 {
			f = c17Self
		} else if o.Kind == 2 {
			f = c17Other
		}
		// few distinct (type, view) pairs per sender: a second PREPARE or COMMIT of one member for the same view (another
		// block, or a retransmission) is a message like any other
		var raw *interfaces.ConsensusRawMessage
		hash := []byte(fmt.Sprintf("m%d", m.id))
		view := primitives.View((m.id / 2) % 2)
		if m.id%2 == 0 {
			raw = f.CreatePrepareMessage(primitives.BlockHeight(o.H), view, hash).ToConsensusRawMessage()
		} else {
			raw = f.CreateCommitMessage(primitives.BlockHeight(o.H), view, hash).ToConsensusRawMessage()
		}
		r.inRecv = m.id
		r.filt.HandleConsensusRawMessage(raw)
		r.inRecv = 0
		if m.must && m.curAtRecv == m.h && m.delivered == 0 && r.viol == "" {
			r.fail("current-height-message-not-delivered", "message %d for the current height %d was not delivered", m.id, m.h)
		}
	}
	return r
}

// CheckC17 is kept for direct use: unit part only.
func CheckC17(run *harness.Run) int {
	fs, cov, _ := CheckC17Unit(run)
	if fs == nil && cov == nil {
		return replayC17(run)
	}
	run.WriteEvidence("exploration", cov, []string{"unit part only"}, len(fs))
	return run.Conclude(fs, nil)
}

// CheckC17Unit runs the filter-level part and returns findings and evidence entries.
func CheckC17Unit(run *harness.Run) ([]harness.Finding, map[string]interface{}, []string) {
	var findings []harness.Finding
	byRule := map[string]int{}
	record := func(ops []fop, r *frun) {
		byRule[r.rule]++
		if byRule[r.rule] > 2 {
			return
		}
		var l []string
		for _, o := range ops {
			l = append(l, o.String())
		}
		path := harness.ReplayPath("C17", fmt.Sprintf("%s-%d", r.rule, byRule[r.rule]))
		harness.WriteJSON(path, map[string]interface{}{"property": "C17", "rule": r.rule, "detail": r.viol, "ops": ops, "ops_text": l})
		findings = append(findings, harness.Finding{Prop: "C17", Rule: r.rule, Detail: fmt.Sprintf("%s; ops=%v", r.viol, l), Replay: path})
	}
	if run.Replay != "" {
		return nil, nil, nil
	}
	// alphabet over heights 1..3 (+4 for receives)
	var alpha []fop
	for h := uint64(1); h <= 3; h++ {
		alpha = append(alpha, fop{Recv: true, H: h}, fop{Recv: true, H: h, Reent: true}, fop{H: h})
	}
	alpha = append(alpha, fop{Recv: true, H: 4}, fop{Recv: true, H: 2, Kind: 1}, fop{Recv: true, H: 2, Kind: 2}, fop{Recv: true, H: 3, Kind: 2})
	maxLen := run.Pick(5, 6)
	seqs, delivs, nontrivial, evicted := 0, 0, 0, 0
	lagProbes := 0
	var samples []interface{}
	var rec func(prefix []fop, depth int)
	rec = func(prefix []fop, depth int) {
		if depth == 0 {
			r := runFilterOps(prefix)
			seqs++
			delivs += r.delivs
			evicted += r.evicted
			if r.delivs > 0 {
				nontrivial++
			}
			if r.viol != "" {
				record(append([]fop{}, prefix...), r)
			}
			if len(samples) < 3 && r.delivs >= 3 {
				var l []string
				for _, o := range prefix {
					l = append(l, o.String())
				}
				samples = append(samples, map[string]interface{}{"ops": l, "deliveries": r.delivs})
			}
			return
		}
		for _, a := range alpha {
			rec(append(prefix, a), depth-1)
		}
	}
	for L := 1; L <= maxLen; L++ {
		rec(nil, L)
	}
	// the same alphabet at the boundaries of the height range: heights 1..4 mapped to b..b+3 for b next to 2^31, 2^32, 2^63
	// and 2^64-1 (the node starts at height 0, so the first messages are 2^31 .. 2^64-2 heights ahead of it)
	boundarySeqs := 0
	for _, b := range []uint64{1<<31 - 2, 1<<32 - 2, 1<<63 - 2, ^uint64(0) - 4} {
		shift := func(ops []fop) []fop {
			out := make([]fop, len(ops))
			for i, o := range ops {
				o.H += b - 1
				out[i] = o
			}
			return out
		}
		var recB func(prefix []fop, depth int)
		recB = func(prefix []fop, depth int) {
			if depth == 0 {
				ops := shift(prefix)
				r := runFilterOps(ops)
				seqs++
				boundarySeqs++
				delivs += r.delivs
				evicted += r.evicted
				if r.delivs > 0 {
					nontrivial++
				}
				if r.viol != "" {
					record(ops, r)
				}
				return
			}
			for _, a := range alpha {
				recB(append(prefix, a), depth-1)
			}
		}
		for L := 1; L <= run.Pick(4, 5); L++ {
			recB(nil, L)
		}
	}
	exhaustiveSeqs := seqs
	// long random sequences over a wider height range
	rng := rand.New(rand.NewSource(run.Seed*32452843 + 17))
	for k := 0; k < run.Pick(3000, 200000); k++ {
		n := 5 + rng.Intn(196)
		ops := make([]fop, n)
		cur := uint64(0)
		for i := range ops {
			switch rng.Intn(10) {
			case 0, 1:
				cur += uint64(rng.Intn(3))
				ops[i] = fop{H: cur}
			default:
				h := cur + uint64(rng.Intn(5))
				if rng.Intn(6) == 0 && h > 0 {
					h--
				}
				o := fop{Recv: true, H: h}
				switch rng.Intn(12) {
				case 0:
					o.Kind = 1
				case 1:
					o.Kind = 2
				case 2, 3:
					o.Reent = true
				}
				ops[i] = o
			}
		}
		r := runFilterOps(ops)
		seqs++
		delivs += r.delivs
		evicted += r.evicted
		if r.delivs > 0 {
			nontrivial++
		}
		if r.viol != "" {
			record(ops, r)
		}
	}
	// many lag-and-sync episodes in a row: messages cached for a height the node then jumps over are discarded unread; after
	// any number of such discards a message cached for the next height is still delivered when that height starts
	{
		ops, probes := LagEpisodes(run.Pick(1500, 6000))
		r := runFilterOps(ops)
		seqs++
		delivs += r.delivs
		if r.viol != "" {
			// (the replay file keeps the whole sequence; the finding names the probe that failed)
			short := ops
			if len(short) > 12 {
				short = ops[len(ops)-12:]
			}
			byRule[r.rule]++
			path := harness.ReplayPath("C17", "lag-episodes")
			harness.WriteJSON(path, map[string]interface{}{"property": "C17", "rule": r.rule, "detail": r.viol, "ops": ops})
			findings = append(findings, harness.Finding{Prop: "C17", Rule: r.rule, Detail: fmt.Sprintf("%s — after %d cached messages had been discarded unread in lag-and-sync episodes (%d messages received so far); last operations: %v", r.viol, r.discarded(), len(r.msgs), short), Replay: path})
		}
		lagProbes = probes
	}
	cov := map[string]interface{}{
		"evaluations":                           seqs,
		"lag_and_sync_episodes_probed_every_25": lagProbes,
		"distinct_nontrivial":                   nontrivial,
		"rule":                                  fmt.Sprintf("operation sequences on the real RawMessageFilter + State with recording handlers per term: every sequence of length <= %d over a 13-letter alphabet (receive a peer message of height 1..4, the same with a handler that starts the next height while the batch is consumed, advance to height 1..3, a message of this node, messages of another instance), plus random sequences of length 5..200 over growing heights; non-trivial = at least one delivery observed; distinct by construction (enumeration / PRNG stream)", maxLen),
		"samples":                               samples,
		"exhaustive":                            true,
		"exhaustive_sequences":                  exhaustiveSeqs,
		"exhaustive_sequences_at_boundary_heights_(2^31,2^32,2^63,2^64-1)": boundarySeqs,
		"deliveries_judged": delivs,
		"cached_messages_evicted_by_a_later_higher_height_(not_judged_for_loss)": evicted,
		"violations_by_rule": byRule,
	}
	fmt.Printf("C17 %s (filter level): sequences=%d (exhaustive %d) deliveries judged=%d\n", run.Tier, seqs, exhaustiveSeqs, delivs)
	return findings, cov, nil
}

// LagEpisodes builds `n` episodes "two messages arrive for height h+2 while the node is at h, then the node is synced to h+3",
// with a probe every 25 episodes: two messages for h+1, then the node starts h+1 (both must be delivered there).
func LagEpisodes(n int) ([]fop, int) {
	h := uint64(10)
	ops := []fop{{H: h}}
	probes := 0
	for e := 0; e < n; e++ {
		ops = append(ops, fop{Recv: true, H: h + 2}, fop{Recv: true, H: h + 2}, fop{H: h + 3})
		h += 3
		if e%25 == 24 || e == n-1 {
			ops = append(ops, fop{Recv: true, H: h + 1}, fop{Recv: true, H: h + 1}, fop{H: h + 1})
			h++
			probes++
		}
	}
	return ops, probes
}

// discarded: messages received for a future height that the node never started.
func (r *frun) discarded() int {
	n := 0
	for _, m := range r.msgs {
		if m.delivered == 0 && m.h < r.cur && m.curAtRecv < m.h {
			n++
		}
	}
	return n
}

// C17LagEpisodesFor runs the lag-and-sync episodes for another property's check (C12: no sequence of valid inputs disables the node).
func C17LagEpisodesFor(run *harness.Run, prop, rule string) ([]harness.Finding, map[string]interface{}) {
	ops, probes := LagEpisodes(run.Pick(1500, 6000))
	r := runFilterOps(ops)
	ev := map[string]interface{}{"lag_and_sync_episodes": run.Pick(1500, 6000), "probes": probes, "messages_received": len(r.msgs), "messages_discarded_unread": r.discarded(), "deliveries_judged": r.delivs}
	if r.viol == "" {
		return nil, ev
	}
	path := harness.ReplayPath(prop, "lag-episodes")
	harness.WriteJSON(path, map[string]interface{}{"property": prop, "rule": rule, "detail": r.viol, "ops": ops})
	return []harness.Finding{{Prop: prop, Rule: rule, Detail: fmt.Sprintf("after %d well-formed messages for heights the node then jumped over (ordinary lag followed by node sync, %d messages received in all) the future cache stopped working: %s", r.discarded(), len(r.msgs), r.viol), Replay: path}}, ev
}

func replayC17(run *harness.Run) int {
	var rf struct {
		Ops []fop `json:"ops"`
	}
	if err := readJSON(run.Replay, &rf); err != nil {
		fmt.Println("cannot read replay:", err)
		return 2
	}
	r := runFilterOps(rf.Ops)
	for _, o := range rf.Ops {
		fmt.Println(" ", o)
	}
	if r.viol != "" {
		return run.Conclude([]harness.Finding{{Prop: "C17", Rule: r.rule, Detail: r.viol, Replay: run.Replay}}, nil)
	}
	return run.Conclude(nil, nil)
}
