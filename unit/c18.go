package unit

import (
	"fmt"
	"math/rand"

	"github.com/orbs-network/lean-helix-go/services/interfaces"
	"github.com/orbs-network/lean-helix-go/services/termincommittee"
	"github.com/orbs-network/lean-helix-go/spec/types/go/primitives"

	"verif/harness"
)

// LeaderViews is the view set of C18 for a committee of n members.
func LeaderViews(n int, rng *rand.Rand, random int) []uint64 {
	var vs []uint64
	for v := 0; v <= 4*n; v++ {
		vs = append(vs, uint64(v))
	}
	for k := uint(0); k < 64; k++ {
		p := uint64(1) << k
		vs = append(vs, p, p-1, p+1)
	}
	for _, c := range []uint64{1 << 31, 1 << 32, 1 << 63, ^uint64(0)} {
		for d := uint64(0); d <= 70; d++ {
			vs = append(vs, c-d)
			if c+d >= c {
				vs = append(vs, c+d)
			}
		}
	}
	for i := 0; i < random; i++ {
		vs = append(vs, rng.Uint64())
	}
	return vs
}

func leaderOf(view uint64, cm []interfaces.CommitteeMember) (id string, panicked interface{}) {
	defer func() {
		if r := recover(); r != nil {
			panicked = r
		}
	}()
	return string(termincommittee.VerifLeaderOf(primitives.View(view), cm)), nil
}

// CheckC18Table tabulates the real leader function next to committee[view mod n].
func CheckC18Table(run *harness.Run) (findings []harness.Finding, evals int, distinct map[string]bool, samples []interface{}) {
	rng := rand.New(rand.NewSource(run.Seed*104729 + 18))
	distinct = map[string]bool{}
	byRule := map[string]int{}
	bad := func(rule, d string) {
		byRule[rule]++
		if byRule[rule] > 3 {
			return
		}
		path := harness.ReplayPath("C18", fmt.Sprintf("%s-%d", rule, byRule[rule]))
		harness.WriteJSON(path, map[string]interface{}{"property": "C18", "rule": rule, "detail": d})
		findings = append(findings, harness.Finding{Prop: "C18", Rule: rule, Detail: d, Replay: path})
	}
	for n := 4; n <= 64; n++ {
		cm := make([]interfaces.CommitteeMember, n)
		perm := rng.Perm(n)
		for i := range cm {
			cm[i] = interfaces.CommitteeMember{Id: primitives.MemberId(fmt.Sprintf("member-%02d", perm[i])), Weight: primitives.MemberWeight(1 + rng.Intn(9))}
		}
		views := LeaderViews(n, rng, run.Pick(1500, 100000)/8)
		for _, v := range views {
			evals++
			got, p := leaderOf(v, cm)
			want := string(cm[v%uint64(n)].Id)
			if p != nil {
				bad("leader-computation-panics", fmt.Sprintf("n=%d view=%d: %v", n, v, p))
				continue
			}
			if got != want {
				bad("leader-is-not-member-at-view-mod-n", fmt.Sprintf("n=%d view=%d: got %s, want position %d = %s", n, v, got, v%uint64(n), want))
			}
			cls := "small"
			switch {
			case v >= 1<<63:
				cls = ">=2^63"
			case v >= 1<<32:
				cls = ">=2^32"
			case v >= 1<<31:
				cls = ">=2^31"
			case v > uint64(4*n):
				cls = "mid"
			}
			distinct[fmt.Sprintf("%d|%s|%d", n, cls, v%uint64(n))] = true
		}
		// each member leads exactly once in any run of n consecutive views
		for _, start := range []uint64{0, 1<<32 - uint64(n)/2, 1<<63 - uint64(n)/2, ^uint64(0) - uint64(2*n), rng.Uint64() >> 1} {
			seen := map[string]int{}
			for d := uint64(0); d < uint64(n); d++ {
				id, p := leaderOf(start+d, cm)
				evals++
				if p == nil {
					seen[id]++
				}
			}
			for _, m := range cm {
				if seen[string(m.Id)] != 1 {
					bad("member-does-not-lead-exactly-once-in-n-consecutive-views", fmt.Sprintf("n=%d start=%d: member %s led %d times", n, start, m.Id, seen[string(m.Id)]))
					break
				}
			}
		}
		if n%20 == 4 {
			samples = append(samples, map[string]interface{}{"n": n, "order": fmt.Sprint(perm[:4], "..."), "views_checked": len(views), "example": fmt.Sprintf("view 2^63+1 -> position %d", (uint64(1)<<63+1)%uint64(n))})
		}
	}
	return
}
