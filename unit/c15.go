package unit

import (
	"context"
	"fmt"
	"math"
	"math/rand"
	"sort"
	"strings"
	"sync"
	"sync/atomic"
	"time"

	"github.com/anishathalye/porcupine"
	"github.com/orbs-network/lean-helix-go/spec/types/go/primitives"
	"github.com/orbs-network/lean-helix-go/state"

	"verif/harness"
)

// Operations on the context registry (state.ViewContexts).
type cop struct {
	Kind int    `json:"kind"` // 0 For, 1 CancelOlderThan, 2 Shutdown
	H    uint64 `json:"h"`
	V    uint64 `json:"v"`
}

func (o cop) String() string {
	v := fmt.Sprint(o.V)
	if o.V == math.MaxUint64 {
		v = "MAX"
	}
	switch o.Kind {
	case 0:
		return fmt.Sprintf("For(%d,%s)", o.H, v)
	case 1:
		return fmt.Sprintf("CancelOlderThan(%d,%s)", o.H, v)
	}
	return "Shutdown"
}

type hvKey struct{ h, v uint64 }

func older(a, b hvKey) bool { return a.h < b.h || (a.h == b.h && a.v < b.v) }

// reference model of the registry
type ctxModel struct {
	shutdown bool
	mark     *hvKey
	live     map[hvKey]int // hv -> context id
	hvOf     []hvKey       // id -> hv
	canc     []bool        // id -> cancelled
}

func runRegistrySeq(ops []cop) (rule, detail string, issued int, cancelled int) {
	vc := state.NewViewContexts()
	m := &ctxModel{live: map[hvKey]int{}}
	var ctxs []context.Context
	for step, o := range ops {
		k := hvKey{o.H, o.V}
		switch o.Kind {
		case 0:
			ctx, err := vc.For(state.NewHeightView(primitives.BlockHeight(o.H), primitives.View(o.V)))
			wantErr := m.shutdown || (m.mark != nil && older(k, *m.mark))
			if (err != nil) != wantErr {
				if wantErr {
					return "context-issued-for-superseded-position", fmt.Sprintf("step %d %s returned a context although the registry is shut down or the position is below the cancel mark %v", step, o, m.mark), len(ctxs), 0
				}
				return "context-refused-for-current-position", fmt.Sprintf("step %d %s failed (%v) although nothing at or above it was cancelled (mark %v)", step, o, err, m.mark), len(ctxs), 0
			}
			if err == nil {
				if id, ok := m.live[k]; ok {
					if ctxs[id] != ctx {
						return "different-context-for-same-live-position", fmt.Sprintf("step %d %s returned another context than before", step, o), len(ctxs), 0
					}
				} else {
					for _, c := range ctxs {
						if c == ctx {
							return "context-reused-for-another-position", fmt.Sprintf("step %d %s returned a context issued earlier", step, o), len(ctxs), 0
						}
					}
					m.live[k] = len(ctxs)
					m.hvOf = append(m.hvOf, k)
					m.canc = append(m.canc, false)
					ctxs = append(ctxs, ctx)
					if ctx.Err() != nil {
						return "context-handed-out-already-cancelled", fmt.Sprintf("step %d %s", step, o), len(ctxs), 0
					}
				}
			}
		case 1:
			vc.CancelOlderThan(state.NewHeightView(primitives.BlockHeight(o.H), primitives.View(o.V)))
			for hv, id := range m.live {
				if older(hv, k) {
					m.canc[id] = true
					delete(m.live, hv)
				}
			}
			if m.mark == nil || older(*m.mark, k) {
				kk := k
				m.mark = &kk
			}
		case 2:
			vc.Shutdown()
			m.shutdown = true
			for id := range m.canc {
				m.canc[id] = true
			}
		}
		// after every step: exactly the contexts the model says are cancelled are cancelled
		for id, c := range ctxs {
			if (c.Err() != nil) != m.canc[id] {
				if m.canc[id] {
					return "context-of-left-position-not-cancelled", fmt.Sprintf("after step %d %s the context of (%d,%d) is still live", step, o, m.hvOf[id].h, m.hvOf[id].v), len(ctxs), 0
				}
				return "context-of-current-or-future-position-cancelled", fmt.Sprintf("after step %d %s the context of (%d,%d) got cancelled although only older positions were left", step, o, m.hvOf[id].h, m.hvOf[id].v), len(ctxs), 0
			}
		}
	}
	for _, c := range m.canc {
		if c {
			cancelled++
		}
	}
	return "", "", len(ctxs), cancelled
}

// ---------------------------------------------------------------- concurrent histories (porcupine)

type cInput struct {
	Op  cop
	Ctx int // for Kind 3 (observe Err of context id)
}
type cOutput struct {
	Ok        bool
	Ctx       int
	Cancelled bool
}

type pState struct {
	shutdown bool
	hasMark  bool
	mark     hvKey
	live     map[hvKey]int
	canc     map[int]bool
	used     map[int]bool
}

func (s *pState) clone() *pState {
	n := &pState{shutdown: s.shutdown, hasMark: s.hasMark, mark: s.mark, live: map[hvKey]int{}, canc: map[int]bool{}, used: map[int]bool{}}
	for k, v := range s.live {
		n.live[k] = v
	}
	for k, v := range s.canc {
		n.canc[k] = v
	}
	for k, v := range s.used {
		n.used[k] = v
	}
	return n
}

func (s *pState) key() string {
	var l []string
	for k, v := range s.live {
		l = append(l, fmt.Sprintf("%d.%d=%d", k.h, k.v, v))
	}
	sort.Strings(l)
	var c []string
	for k, v := range s.canc {
		if v {
			c = append(c, fmt.Sprint(k))
		}
	}
	sort.Strings(c)
	var u []string
	for k := range s.used {
		u = append(u, fmt.Sprint(k))
	}
	sort.Strings(u)
	return fmt.Sprintf("%v|%v|%v|%s|%s|%s", s.shutdown, s.hasMark, s.mark, strings.Join(l, ","), strings.Join(c, ","), strings.Join(u, ","))
}

var registryModel = porcupine.Model{
	Init: func() interface{} { return &pState{live: map[hvKey]int{}, canc: map[int]bool{}, used: map[int]bool{}} },
	Step: func(st, in, out interface{}) (bool, interface{}) {
		s := st.(*pState)
		i := in.(cInput)
		o := out.(cOutput)
		k := hvKey{i.Op.H, i.Op.V}
		switch i.Op.Kind {
		case 0:
			wantErr := s.shutdown || (s.hasMark && older(k, s.mark))
			if o.Ok == wantErr {
				return false, s
			}
			if !o.Ok {
				return true, s
			}
			if id, ok := s.live[k]; ok {
				return id == o.Ctx, s
			}
			if s.used[o.Ctx] {
				return false, s
			}
			n := s.clone()
			n.live[k] = o.Ctx
			n.used[o.Ctx] = true
			return true, n
		case 1:
			n := s.clone()
			for hv, id := range n.live {
				if older(hv, k) {
					n.canc[id] = true
					delete(n.live, hv)
				}
			}
			if !n.hasMark || older(n.mark, k) {
				n.hasMark, n.mark = true, k
			}
			return true, n
		case 2:
			n := s.clone()
			n.shutdown = true
			for id := range n.used {
				n.canc[id] = true
			}
			return true, n
		case 3: // observe ctx.Err() of a known context
			return o.Cancelled == s.canc[i.Ctx], s
		}
		return false, s
	},
	Equal: func(a, b interface{}) bool { return a.(*pState).key() == b.(*pState).key() },
	DescribeOperation: func(in, out interface{}) string {
		i := in.(cInput)
		o := out.(cOutput)
		if i.Op.Kind == 3 {
			return fmt.Sprintf("Err(ctx%d)=%v", i.Ctx, o.Cancelled)
		}
		return fmt.Sprintf("%s -> ok=%v ctx%d", i.Op, o.Ok, o.Ctx)
	},
}

func concurrentRegistryHistory(seed int64, clients, opsPerClient int) []porcupine.Operation {
	vc := state.NewViewContexts()
	var clock int64
	var mu sync.Mutex
	ids := map[context.Context]int{}
	var byId []context.Context
	idOf := func(c context.Context) int {
		mu.Lock()
		defer mu.Unlock()
		if id, ok := ids[c]; ok {
			return id
		}
		ids[c] = len(byId)
		byId = append(byId, c)
		return len(byId) - 1
	}
	var hist []porcupine.Operation
	var wg sync.WaitGroup
	// CancelOlderThan cancels its contexts one after the other, so an Err() observation taken *while* it runs may
	// see some of them cancelled and others not yet: that is not a defect (the guarantee is about what holds once it
	// returned) and it is not linearizable. Observations therefore never overlap a cancel / shutdown call; For calls do.
	var obs sync.RWMutex
	for cl := 0; cl < clients; cl++ {
		wg.Add(1)
		go func(cl int) {
			defer wg.Done()
			r := rand.New(rand.NewSource(seed*31 + int64(cl)))
			for i := 0; i < opsPerClient; i++ {
				views := []uint64{0, 1, math.MaxUint64}
				op := cop{Kind: 0, H: uint64(1 + r.Intn(3)), V: views[r.Intn(3)]}
				x := r.Intn(20)
				var in cInput
				var out cOutput
				switch {
				case x < 9:
					op.Kind = 0
				case x < 15:
					op.Kind = 1
				case x == 15 && i > opsPerClient/2:
					op.Kind = 2
				default:
					op.Kind = 3
				}
				mu.Lock()
				known := len(byId)
				mu.Unlock()
				if op.Kind == 3 && known == 0 {
					op.Kind = 0
				}
				in.Op = op
				call := atomic.AddInt64(&clock, 1)
				switch op.Kind {
				case 0:
					ctx, err := vc.For(state.NewHeightView(primitives.BlockHeight(op.H), primitives.View(op.V)))
					out.Ok = err == nil
					if err == nil {
						out.Ctx = idOf(ctx)
					}
				case 1:
					obs.Lock()
					call = atomic.AddInt64(&clock, 1)
					vc.CancelOlderThan(state.NewHeightView(primitives.BlockHeight(op.H), primitives.View(op.V)))
					out.Ok = true
				case 2:
					obs.Lock()
					call = atomic.AddInt64(&clock, 1)
					vc.Shutdown()
					out.Ok = true
				case 3:
					in.Ctx = r.Intn(known)
					mu.Lock()
					c := byId[in.Ctx]
					mu.Unlock()
					obs.RLock()
					call = atomic.AddInt64(&clock, 1)
					out.Cancelled = c.Err() != nil
				}
				ret := atomic.AddInt64(&clock, 1)
				switch op.Kind {
				case 1, 2:
					obs.Unlock()
				case 3:
					obs.RUnlock()
				}
				mu.Lock()
				hist = append(hist, porcupine.Operation{ClientId: cl, Input: in, Output: out, Call: call, Return: ret})
				mu.Unlock()
				if r.Intn(4) == 0 {
					time.Sleep(time.Microsecond)
				}
			}
		}(cl)
	}
	wg.Wait()
	return hist
}

// CheckC15Registry runs the exhaustive sequence laws and the concurrent histories.
func CheckC15Registry(run *harness.Run) ([]harness.Finding, map[string]interface{}, []string) {
	var findings []harness.Finding
	byRule := map[string]int{}
	var inconclusive []string
	views := []uint64{0, 1, math.MaxUint64}
	var alpha []cop
	for h := uint64(1); h <= 3; h++ {
		for _, v := range views {
			alpha = append(alpha, cop{0, h, v}, cop{1, h, v})
		}
	}
	alpha = append(alpha, cop{Kind: 2})
	maxLen := run.Pick(5, 6)
	seqs, nontrivial := 0, 0
	var samples []interface{}
	var rec func(prefix []cop, depth int)
	rec = func(prefix []cop, depth int) {
		if depth == 0 {
			seqs++
			rule, detail, issued, cancelled := runRegistrySeq(prefix)
			if issued > 0 && cancelled > 0 {
				nontrivial++
				if len(samples) < 3 && nontrivial%50021 == 1 {
					var l []string
					for _, o := range prefix {
						l = append(l, o.String())
					}
					samples = append(samples, map[string]interface{}{"ops": l, "contexts_issued": issued, "contexts_cancelled": cancelled})
				}
			}
			if rule != "" {
				byRule[rule]++
				if byRule[rule] <= 2 {
					var l []string
					for _, o := range prefix {
						l = append(l, o.String())
					}
					path := harness.ReplayPath("C15", fmt.Sprintf("%s-%d", rule, byRule[rule]))
					harness.WriteJSON(path, map[string]interface{}{"property": "C15", "rule": rule, "detail": detail, "ops": l})
					findings = append(findings, harness.Finding{Prop: "C15", Rule: rule, Detail: detail + "; ops=" + strings.Join(l, " "), Replay: path})
				}
			}
			return
		}
		for _, a := range alpha {
			rec(append(prefix, a), depth-1)
		}
	}
	for L := 1; L <= maxLen; L++ {
		rec(nil, L)
	}
	// long random sequences over a wide range of views: dozens of contexts live at once (one per view a proposal was validated
	// for), then the cancellations; the same laws, checked after every step
	longSeqs, maxLive := run.Pick(600, 12000), 0
	lrng := rand.New(rand.NewSource(run.Seed*31 + 15))
	for i := 0; i < longSeqs; i++ {
		n := 40 + lrng.Intn(160)
		var ops []cop
		live := 0
		// first a run of For calls for distinct positions (proposals of many views validated one after the other), nothing cancelled yet
		for k, lead := 0, 30+lrng.Intn(50); k < lead; k++ {
			ops = append(ops, cop{0, uint64(1 + lrng.Intn(3)), uint64(lrng.Intn(80))})
			live++
		}
		for k := 0; k < n; k++ {
			h := uint64(1 + lrng.Intn(3))
			v := uint64(lrng.Intn(80))
			if lrng.Intn(12) == 0 {
				v = math.MaxUint64
			}
			switch r := lrng.Intn(20); {
			case r < 16:
				ops = append(ops, cop{0, h, v})
				live++
			case r < 19 || k < n/2:
				ops = append(ops, cop{1, h, v})
			default:
				ops = append(ops, cop{Kind: 2})
			}
		}
		if live > maxLive {
			maxLive = live
		}
		seqs++
		rule, detail, issued, cancelled := runRegistrySeq(ops)
		if issued > 0 && cancelled > 0 {
			nontrivial++
		}
		if rule != "" {
			byRule[rule]++
			if byRule[rule] <= 2 {
				var l []string
				for _, o := range ops {
					l = append(l, o.String())
				}
				path := harness.ReplayPath("C15", fmt.Sprintf("%s-long-%d", rule, byRule[rule]))
				harness.WriteJSON(path, map[string]interface{}{"property": "C15", "rule": rule, "detail": detail, "ops": l})
				findings = append(findings, harness.Finding{Prop: "C15", Rule: rule, Detail: detail + fmt.Sprintf("; in a sequence of %d operations (replay file)", len(ops)), Replay: path})
			}
		}
	}
	// concurrent histories
	hists := run.Pick(300, 6000)
	linOK, linUnknown, opsTotal := 0, 0, 0
	for i := 0; i < hists; i++ {
		h := concurrentRegistryHistory(run.Seed*7+int64(i), 3, 7)
		opsTotal += len(h)
		res, _ := porcupine.CheckOperationsVerbose(registryModel, h, 20*time.Second)
		switch res {
		case porcupine.Ok:
			linOK++
		case porcupine.Unknown:
			linUnknown++
		case porcupine.Illegal:
			byRule["concurrent-history-not-linearizable"]++
			if byRule["concurrent-history-not-linearizable"] <= 2 {
				var l []string
				sort.Slice(h, func(a, b int) bool { return h[a].Call < h[b].Call })
				for _, o := range h {
					l = append(l, fmt.Sprintf("c%d [%d,%d] %s", o.ClientId, o.Call, o.Return, registryModel.DescribeOperation(o.Input, o.Output)))
				}
				path := harness.ReplayPath("C15", fmt.Sprintf("not-linearizable-%d", byRule["concurrent-history-not-linearizable"]))
				harness.WriteJSON(path, map[string]interface{}{"property": "C15", "rule": "concurrent-history-not-linearizable", "history": l})
				findings = append(findings, harness.Finding{Prop: "C15", Rule: "concurrent-history-not-linearizable", Detail: fmt.Sprintf("a 3-client history of For/CancelOlderThan/Shutdown/Err observations is not linearizable against the registry model (%d ops)", len(h)), Replay: path})
			}
		}
	}
	if linUnknown > hists/10 {
		inconclusive = append(inconclusive, fmt.Sprintf("%d of %d linearizability checks timed out", linUnknown, hists))
	}
	ev := map[string]interface{}{
		"registry_sequences_exhaustive":            seqs,
		"registry_max_sequence_length":             maxLen,
		"registry_long_random_sequences":           longSeqs,
		"registry_long_sequences_max_For_calls":    maxLive,
		"registry_sequences_with_issue_and_cancel": nontrivial,
		"registry_samples":                         samples,
		"concurrent_histories":                     hists,
		"concurrent_histories_linearizable":        linOK,
		"concurrent_histories_checker_timeout":     linUnknown,
		"concurrent_operations":                    opsTotal,
		"registry_violations_by_rule":              byRule,
	}
	return findings, ev, inconclusive
}
