package unit

import (
	"fmt"
	"math/rand"
	"sync"
	"sync/atomic"

	"github.com/orbs-network/lean-helix-go/spec/types/go/protocol"

	"verif/ref"
	"verif/sim"
	"verif/spi"
)

// C02Concurrent: ValidateBlockConsensus is called from the consumer's goroutines (block sync), not from the worker,
// so several validations of different proofs overlap on one node. A fixed list of (block, proof, mode) inputs with
// reference verdicts — genuine certificates signed by heavy members next to certificates signed by light members only,
// boundary signer sets, non-genuine signatures, other blocks — is validated by several goroutines at once, each in its
// own PRNG-determined order; every answer is judged against the verdict the reference computed beforehand
// (accepted and not reference => violation). Run in the race-built driver: a data race on library state is reported
// by the race detector.
func C02Concurrent(seed int64) (viol [][2]string, stats map[string]int) {
	stats = map[string]int{}
	c := &c02{byRule: map[string]int{}, classes: map[string]bool{}, rng: rand.New(rand.NewSource(seed))}
	for i := 0; i < 14; i++ {
		c.ids = append(c.ids, fmt.Sprintf("m%02d", i))
	}
	c.keys = spi.NewKeys(c.ids)
	inst := uint64(spi.InstanceId)
	var wd *c02world
	var h uint64
	var cm *ref.Committee
	for {
		wd = c.world()
		h = uint64(2 + c.rng.Intn(3))
		cm = ref.NewCommittee(wd.comm[h])
		if cm.N() > 0 && cm.W.Sign() > 0 && ref.NewCommittee(wd.comm[h-1]).N() > 0 {
			break
		}
	}
	type item struct {
		what      string
		blk       *spi.Blk
		proof     []byte
		soft      bool
		refReject string
	}
	prevBlk := &spi.Blk{H: h - 1, Body: "prev"}
	prev := c.build(&proofSpec{Type: protocol.LEAN_HELIX_COMMIT, Inst: inst, H: h - 1, Hash: spi.HashOf(prevBlk), Signers: c.pickSigners(ref.NewCommittee(wd.comm[h-1]), 4), SigMode: make([]int, 16)}, nil)
	var items []*item
	add := func(what string, blk *spi.Blk, proof []byte) {
		for _, soft := range []bool{false, true} {
			items = append(items, &item{what, blk, proof, soft, sim.RefProofCheck(c.keys, cm, inst, blk, proof, prev, soft)})
		}
	}
	for b := 0; b < 3; b++ {
		blk := &spi.Blk{H: h, Body: fmt.Sprintf("block-%d", b)}
		base := func(mode int) *proofSpec {
			s := &proofSpec{Type: protocol.LEAN_HELIX_COMMIT, Inst: inst, H: h, V: uint64(c.rng.Intn(3)), Hash: spi.HashOf(blk), Signers: c.pickSigners(cm, mode)}
			s.SigMode = make([]int, len(s.Signers)+4)
			return s
		}
		for rep := 0; rep < 2; rep++ {
			for mode := 0; mode <= 4; mode++ {
				add(fmt.Sprintf("signers mode %d", mode), blk, c.build(base(mode), prev))
			}
		}
		s := base(0)
		s.SigMode[c.rng.Intn(len(s.Signers))] = 1
		add("one signature not genuine", blk, c.build(s, prev))
		add("another block under a genuine certificate", &spi.Blk{H: h, Body: "not the certified one"}, c.build(base(0), prev))
		s = base(1)
		s.Signers = append(s.Signers, c.ids[12], c.ids[13])
		s.SigMode = make([]int, len(s.Signers))
		add("below quorum, padded with outsiders", blk, c.build(s, prev))
	}
	for _, it := range items {
		if it.refReject == "" {
			stats["C02 concurrent inputs the reference accepts"]++
		} else {
			stats["C02 concurrent inputs the reference rejects"]++
		}
	}
	// warm-up, sequential: one pass (also establishes that each input alone is judged as the reference says)
	var mu sync.Mutex
	judge := func(it *item, err error, p interface{}, phase string) {
		mu.Lock()
		defer mu.Unlock()
		stats["C02 concurrent validations judged"]++
		if p != nil {
			viol = append(viol, [2]string{"validate-block-consensus-panics", fmt.Sprintf("%s (%s, soft=%v): %v", it.what, phase, it.soft, p)})
			return
		}
		if err == nil && it.refReject != "" {
			viol = append(viol, [2]string{"accepted-without-genuine-certificate:" + it.refReject, fmt.Sprintf("%s (soft=%v), %s, committee %v: ValidateBlockConsensus returned nil but the reference says: %s", it.what, it.soft, phase, wd.comm[h], it.refReject)})
		}
		if err != nil && it.refReject == "" {
			stats["C02 reference accepts but implementation rejects (not a C02 matter)"]++
		}
	}
	for _, it := range items {
		err, p := c.call(wd, it.blk, it.proof, prevBlk, prev, it.soft)
		judge(it, err, p, "alone")
	}
	G := 4 + c.rng.Intn(5)
	rounds := 6
	var inflight, overlapped int64
	var wg sync.WaitGroup
	for g := 0; g < G; g++ {
		order := rand.New(rand.NewSource(seed + int64(g)*7919))
		wg.Add(1)
		go func() {
			defer wg.Done()
			for r := 0; r < rounds; r++ {
				for _, k := range order.Perm(len(items)) {
					it := items[k]
					if atomic.AddInt64(&inflight, 1) > 1 {
						atomic.AddInt64(&overlapped, 1)
					}
					err, p := c.call(wd, it.blk, it.proof, prevBlk, prev, it.soft)
					atomic.AddInt64(&inflight, -1)
					judge(it, err, p, "while other validations were running on the same node")
				}
			}
		}()
	}
	wg.Wait()
	stats["C02 validations that started while another one was running"] = int(overlapped)
	stats["C02 concurrent goroutines"] = G
	if len(viol) > 3 {
		viol = viol[:3]
	}
	return viol, stats
}
