// Package unit holds the unit-monitors: the real function / component run on
// generated and enumerated inputs next to an independent reference oracle.
package unit

import (
	"fmt"
	"math/big"
	"math/rand"

	"github.com/orbs-network/lean-helix-go/services/interfaces"
	"github.com/orbs-network/lean-helix-go/services/quorum"
	"github.com/orbs-network/lean-helix-go/spec/types/go/primitives"

	"verif/harness"
)

type c06 struct {
	findings []harness.Finding
	evals    int
	vectors  int
	distinct map[string]bool
	samples  []interface{}
	byRule   map[string]int
	// the result of GetWeights for the previous committee, and that committee's weights
	prevWeights []primitives.MemberWeight
	prevWs      []uint64
}

func (c *c06) bad(rule, format string, a ...interface{}) {
	c.byRule[rule]++
	if c.byRule[rule] > 3 {
		return
	}
	d := fmt.Sprintf(format, a...)
	path := harness.ReplayPath("C06", fmt.Sprintf("%s-%d", rule, c.byRule[rule]))
	harness.WriteJSON(path, map[string]interface{}{"property": "C06", "rule": rule, "detail": d})
	c.findings = append(c.findings, harness.Finding{Prop: "C06", Rule: rule, Detail: d, Replay: path})
}

// idFamily: member ids come in several shapes, because an id set keyed by something lossy (a prefix, a
// fixed-size array, a printable abbreviation) only shows with ids that collide under it.
var idFamily int

func memberId(i int) primitives.MemberId {
	switch idFamily % 5 {
	case 0:
		return primitives.MemberId(fmt.Sprintf("m%02d", i))
	case 1: // 32 bytes, the first 28 shared
		return primitives.MemberId(fmt.Sprintf("0123456789abcdef0123456789ab%04d", i))
	case 2: // differ only by trailing zero bytes / length
		return primitives.MemberId("node" + string(make([]byte, i)))
	case 3: // 20-byte addresses sharing the first 3 bytes
		return primitives.MemberId(fmt.Sprintf("abc-address-%08d", i))
	default: // binary ids differing in the last byte of 24
		b := make([]byte, 24)
		for k := range b {
			b[k] = 0xee
		}
		b[23] = byte(i)
		return primitives.MemberId(b)
	}
}

func members(ws []uint64) []interfaces.CommitteeMember {
	out := make([]interfaces.CommitteeMember, len(ws))
	for i, w := range ws {
		out[i] = interfaces.CommitteeMember{Id: memberId(i), Weight: primitives.MemberWeight(w)}
	}
	return out
}

func bigSum(ws []uint64, mask uint64) *big.Int {
	s := new(big.Int)
	for i, w := range ws {
		if mask&(1<<uint(i)) != 0 {
			s.Add(s, new(big.Int).SetUint64(w))
		}
	}
	return s
}

// vector checks one weight vector: thresholds, every subset (n<=12) or sampled subsets, pair intersection.
func (c *c06) vector(ws []uint64, rng *rand.Rand, kind string) {
	n := len(ws)
	all := uint64(1)<<uint(n) - 1
	W := bigSum(ws, all)
	if W.BitLen() > 64 {
		return
	}
	c.vectors++
	idFamily = c.vectors
	F := new(big.Int)
	if W.Sign() > 0 {
		F.Div(new(big.Int).Sub(W, big.NewInt(1)), big.NewInt(3))
	}
	Q := new(big.Int).Sub(W, F)
	cm := members(ws)
	mw := quorum.GetWeights(cm)
	// the weights handed out for the previous committee are still that committee's weights (a result that aliases a shared
	// buffer changes under its holder when the next committee is evaluated)
	if c.prevWeights != nil {
		c.evals++
		for i := range c.prevWeights {
			if i >= len(c.prevWs) || uint64(c.prevWeights[i]) != c.prevWs[i] {
				c.bad("weights-of-one-committee-changed-by-evaluating-another", "GetWeights(%v) returned %v; after GetWeights(%v) the first result reads %v", c.prevWs, c.prevWs, ws, c.prevWeights)
				break
			}
		}
	}
	c.prevWeights, c.prevWs = mw, append([]uint64{}, ws...)
	gotF := quorum.CalcByzMaxWeight(mw)
	gotQ := quorum.CalcQuorumWeight(mw)
	c.evals += 2
	if W.Sign() > 0 {
		if new(big.Int).SetUint64(uint64(gotF)).Cmp(F) != 0 {
			c.bad("byz-max-weight-not-floor((W-1)/3)", "weights=%v W=%s: CalcByzMaxWeight=%d, floor((W-1)/3)=%s", ws, W, gotF, F)
		}
		if new(big.Int).SetUint64(uint64(gotQ)).Cmp(Q) != 0 {
			c.bad("quorum-weight-not-W-minus-f", "weights=%v W=%s: CalcQuorumWeight=%d, W-f=%s", ws, W, gotQ, Q)
		}
	}
	ids := func(mask uint64) []primitives.MemberId {
		var l []primitives.MemberId
		for i := 0; i < n; i++ {
			if mask&(1<<uint(i)) != 0 {
				l = append(l, cm[i].Id)
			}
		}
		return l
	}
	var masks []uint64
	if n <= 10 {
		for m := uint64(0); m <= all; m++ {
			masks = append(masks, m)
		}
	} else {
		masks = append(masks, 0, all)
		for k := 0; k < 300; k++ {
			masks = append(masks, rng.Uint64()&all)
		}
	}
	isQ := make(map[uint64]bool, len(masks))
	for _, m := range masks {
		q, w, qq := quorum.IsQuorum(ids(m), cm)
		h, w2, bb := quorum.HasHonest(ids(m), cm)
		c.evals += 2
		ref := bigSum(ws, m)
		isQ[m] = q
		if new(big.Int).SetUint64(uint64(w)).Cmp(ref) != 0 || w != w2 {
			c.bad("subset-weight-wrong", "weights=%v subset=%b: reported weight %d/%d, reference %s", ws, m, w, w2, ref)
		}
		if W.Sign() > 0 && (uint64(qq) != uint64(gotQ) || uint64(bb) != uint64(gotF)) {
			c.bad("threshold-inconsistent", "weights=%v: IsQuorum reports q=%d, HasHonest b=%d, Calc* gave %d/%d", ws, qq, bb, gotQ, gotF)
		}
		if W.Sign() > 0 {
			if q != (ref.Cmp(Q) >= 0) {
				c.bad("is-quorum-differs-from-reference", "weights=%v W=%s f=%s Q=%s subset=%b weight=%s: IsQuorum=%v", ws, W, F, Q, m, ref, q)
			}
			if h != (ref.Cmp(F) > 0) {
				c.bad("has-honest-differs-from-reference", "weights=%v W=%s f=%s subset=%b weight=%s: HasHonest=%v", ws, W, F, m, ref, h)
			}
			if q && !h {
				c.bad("quorum-without-honest", "weights=%v subset=%b passes IsQuorum but fails HasHonest", ws, m)
			}
			// attainability: members outside any subset of weight <= f still pass the quorum test
			if ref.Cmp(F) <= 0 {
				cq, _, _ := quorum.IsQuorum(ids(all&^m), cm)
				c.evals++
				if !cq {
					c.bad("complement-of-f-subset-not-quorum", "weights=%v f=%s: subset=%b has weight %s <= f but its complement fails IsQuorum", ws, F, m, ref)
				}
			}
		}
	}
	if W.Sign() == 0 {
		return
	}
	// intersection of any two quorums exceeds f; monotonicity
	var qs []uint64
	for _, m := range masks {
		if isQ[m] {
			qs = append(qs, m)
		}
	}
	pairs := 0
	for i := 0; i < len(qs) && pairs < 4000; i++ {
		for j := i; j < len(qs) && pairs < 4000; j++ {
			pairs++
			c.evals++
			if bigSum(ws, qs[i]&qs[j]).Cmp(F) <= 0 {
				c.bad("two-quorums-intersect-in-at-most-f", "weights=%v f=%s: subsets %b and %b both pass IsQuorum but share weight %s", ws, F, qs[i], qs[j], bigSum(ws, qs[i]&qs[j]))
			}
		}
	}
	for k := 0; k < 64 && len(masks) > 1; k++ {
		s := masks[rng.Intn(len(masks))]
		t := s | masks[rng.Intn(len(masks))]
		qt, ok := isQ[t]
		if !ok {
			qt, _, _ = quorum.IsQuorum(ids(t), cm)
		}
		c.evals++
		if isQ[s] && !qt {
			c.bad("not-monotone", "weights=%v: subset %b passes IsQuorum but its superset %b does not", ws, s, t)
		}
	}
	// duplicate ids, strangers and zero-weight members never add weight
	for k := 0; k < 24; k++ {
		m := masks[rng.Intn(len(masks))]
		base := ids(m)
		noisy := append([]primitives.MemberId{}, base...)
		for d := rng.Intn(2*n + 2); d > 0; d-- {
			switch rng.Intn(3) {
			case 0:
				if len(base) > 0 {
					noisy = append(noisy, base[rng.Intn(len(base))])
				}
			case 1:
				switch rng.Intn(4) {
				case 0:
					noisy = append(noisy, primitives.MemberId(fmt.Sprintf("stranger%d", rng.Intn(5))))
				case 1: // a member's id with something appended
					noisy = append(noisy, append(append(primitives.MemberId{}, cm[rng.Intn(n)].Id...), byte(rng.Intn(2))))
				case 2: // a prefix of a member's id
					id := cm[rng.Intn(n)].Id
					noisy = append(noisy, append(primitives.MemberId{}, id[:rng.Intn(len(id)+1)]...))
				case 3: // ids of positions beyond the committee, same shape
					noisy = append(noisy, memberId(n+rng.Intn(40)))
				}
			case 2:
				noisy = append(noisy, primitives.MemberId(""))
			}
		}
		rng.Shuffle(len(noisy), func(i, j int) { noisy[i], noisy[j] = noisy[j], noisy[i] })
		// reference: each committee member named at least once counts once; everything else counts nothing
		// (a generated "stranger" may coincide with a real member's id in some id families: the reference decides)
		refW := new(big.Int)
		for i := 0; i < n; i++ {
			for _, id := range noisy {
				if string(id) == string(cm[i].Id) {
					refW.Add(refW, new(big.Int).SetUint64(ws[i]))
					break
				}
			}
		}
		q2, w2, _ := quorum.IsQuorum(noisy, cm)
		h2, w3, _ := quorum.HasHonest(noisy, cm)
		c.evals += 2
		if new(big.Int).SetUint64(uint64(w2)).Cmp(refW) != 0 || w2 != w3 || q2 != (refW.Cmp(Q) >= 0) || h2 != (refW.Cmp(F) > 0) {
			c.bad("duplicates-or-strangers-change-the-verdict", "weights=%v W=%s f=%s Q=%s members=%x: id list %x -> (quorum=%v honest=%v weight=%d), reference weight of the distinct members in it is %s", ws, W, F, Q, ids(all), noisy, q2, h2, w2, refW)
		}
	}
	key := fmt.Sprintf("%s|%d|%s", kind, n, W.String())
	if !c.distinct[key] {
		c.distinct[key] = true
		if len(c.samples) < 6 && (len(c.distinct)%97 == 1) {
			c.samples = append(c.samples, map[string]interface{}{"family": kind, "weights": fmt.Sprint(ws), "W": W.String(), "f": F.String(), "Q": Q.String(), "subsets_checked": len(masks), "quorum_subsets": len(qs)})
		}
	}
}

// large checks one committee of more than 64 members (subsets as index lists, not 64-bit masks): thresholds, sampled
// subsets and id multisets that repeat members at any position, each verdict and weight against the reference.
func (c *c06) large(ws []uint64, rng *rand.Rand) {
	n := len(ws)
	W := new(big.Int)
	for _, w := range ws {
		W.Add(W, new(big.Int).SetUint64(w))
	}
	if W.BitLen() > 64 || W.Sign() == 0 {
		return
	}
	c.vectors++
	idFamily = c.vectors
	F := new(big.Int).Div(new(big.Int).Sub(W, big.NewInt(1)), big.NewInt(3))
	Q := new(big.Int).Sub(W, F)
	cm := members(ws)
	mw := quorum.GetWeights(cm)
	c.evals += 2
	if new(big.Int).SetUint64(uint64(quorum.CalcByzMaxWeight(mw))).Cmp(F) != 0 || new(big.Int).SetUint64(uint64(quorum.CalcQuorumWeight(mw))).Cmp(Q) != 0 {
		c.bad("thresholds-wrong-for-a-large-committee", "n=%d W=%s: CalcByzMaxWeight=%d CalcQuorumWeight=%d, reference f=%s Q=%s", n, W, quorum.CalcByzMaxWeight(mw), quorum.CalcQuorumWeight(mw), F, Q)
	}
	for k := 0; k < 60; k++ {
		// a subset by density, then noise: repeats of members (biased to the high positions), strangers
		in := make([]bool, n)
		dens := rng.Intn(101)
		var list []primitives.MemberId
		for i := 0; i < n; i++ {
			if rng.Intn(100) < dens {
				in[i] = true
				list = append(list, cm[i].Id)
			}
		}
		switch k % 4 {
		case 1: // one member named many times
			i := rng.Intn(n)
			if rng.Intn(2) == 0 {
				i = n - 1 - rng.Intn(n-64)
			}
			list = nil
			for x := range in {
				in[x] = false
			}
			in[i] = true
			for r := 0; r < 1+rng.Intn(3*n); r++ {
				list = append(list, cm[i].Id)
			}
		case 2: // repeats of members already in the subset
			for r := rng.Intn(2 * n); r > 0 && len(list) > 0; r-- {
				list = append(list, list[rng.Intn(len(list))])
			}
		case 3: // strangers
			for r := rng.Intn(n); r > 0; r-- {
				list = append(list, memberId(n+rng.Intn(50)))
			}
		}
		rng.Shuffle(len(list), func(a, b int) { list[a], list[b] = list[b], list[a] })
		ref := new(big.Int)
		for i := 0; i < n; i++ {
			if in[i] {
				ref.Add(ref, new(big.Int).SetUint64(ws[i]))
			}
		}
		q, w, _ := quorum.IsQuorum(list, cm)
		h, w2, _ := quorum.HasHonest(list, cm)
		c.evals += 2
		if new(big.Int).SetUint64(uint64(w)).Cmp(ref) != 0 || w != w2 || q != (ref.Cmp(Q) >= 0) || h != (ref.Cmp(F) > 0) {
			c.bad("duplicates-or-strangers-change-the-verdict", "committee of %d members, W=%s f=%s Q=%s: an id list of %d entries naming %d distinct members -> (quorum=%v honest=%v weight=%d/%d), reference weight %s", n, W, F, Q, len(list), countTrue(in), q, h, w, w2, ref)
		}
	}
	key := fmt.Sprintf("large|%d|%s", n, W.String())
	c.distinct[key] = true
}

// reused: one committee slice re-filled in place with other weights between evaluations (a Membership provider that keeps one
// buffer per call site, weights updated where they stand): every verdict is about the weights the slice holds at the call.
func (c *c06) reused(rng *rand.Rand, rounds int) {
	n := 4 + rng.Intn(6)
	buf := make([]interfaces.CommitteeMember, n)
	for i := range buf {
		buf[i].Id = memberId(i)
	}
	all := uint64(1)<<uint(n) - 1
	for r := 0; r < rounds; r++ {
		ws := make([]uint64, n)
		for i := range ws {
			switch r % 4 {
			case 0:
				ws[i] = 1
			case 1:
				ws[i] = uint64(10 * (i + 1))
			case 2:
				ws[i] = uint64(1)<<uint(40+rng.Intn(20)) + uint64(rng.Intn(5))
			default:
				ws[i] = uint64(1 + rng.Intn(9))
			}
			buf[i].Weight = primitives.MemberWeight(ws[i])
		}
		W := bigSum(ws, all)
		F := new(big.Int).Div(new(big.Int).Sub(W, big.NewInt(1)), big.NewInt(3))
		Q := new(big.Int).Sub(W, F)
		for k := 0; k < 24; k++ {
			mask := rng.Uint64() & all
			if k == 0 {
				mask = all
			} else if k <= n {
				mask = 1 << uint(k-1) // singletons: what a stale, lighter threshold lets through first
			}
			var l []primitives.MemberId
			for i := 0; i < n; i++ {
				if mask&(1<<uint(i)) != 0 {
					l = append(l, buf[i].Id)
				}
			}
			sw := bigSum(ws, mask)
			q, _, _ := quorum.IsQuorum(l, buf)
			h, _, _ := quorum.HasHonest(l, buf)
			c.evals += 2
			if q != (sw.Cmp(Q) >= 0) {
				c.bad("verdict-follows-an-earlier-committee-in-the-same-buffer", "committee slice re-filled in place with weights %v (W=%s, quorum %s): IsQuorum(subset weight %s) = %v", ws, W, Q, sw, q)
			}
			if h != (sw.Cmp(F) > 0) {
				c.bad("verdict-follows-an-earlier-committee-in-the-same-buffer", "committee slice re-filled in place with weights %v (W=%s, f=%s): HasHonest(subset weight %s) = %v", ws, W, F, sw, h)
			}
		}
	}
}

func countTrue(b []bool) int {
	n := 0
	for _, x := range b {
		if x {
			n++
		}
	}
	return n
}

// CheckC06 decides the quorum arithmetic property.
// C06Extra (set by the driver) adds the behavioural half: the quorum test as the protocol applies it.
var C06Extra func(run *harness.Run) ([]harness.Finding, map[string]interface{}, []string)

func CheckC06(run *harness.Run) int {
	c := &c06{distinct: map[string]bool{}, byRule: map[string]int{}}
	rng := rand.New(rand.NewSource(run.Seed*7919 + 6))
	// exhaustive small vectors
	maxW := run.Pick(4, 6)
	for n := 4; n <= 5; n++ {
		ws := make([]uint64, n)
		var rec func(i int)
		rec = func(i int) {
			if i == n {
				c.vector(append([]uint64{}, ws...), rng, "exhaustive-small")
				return
			}
			for w := uint64(1); w <= uint64(maxW); w++ {
				ws[i] = w
				rec(i + 1)
			}
		}
		rec(0)
	}
	// zero-weight members mixed in
	for k := 0; k < run.Pick(300, 5000); k++ {
		n := 4 + rng.Intn(6)
		ws := make([]uint64, n)
		for i := range ws {
			ws[i] = uint64(rng.Intn(4))
		}
		c.vector(ws, rng, "with-zero-weights")
	}
	// boundary totals
	targets := []*big.Int{}
	add := func(base *big.Int, lo, hi int64) {
		for d := lo; d <= hi; d++ {
			t := new(big.Int).Add(base, big.NewInt(d))
			if t.Sign() > 0 && t.BitLen() <= 64 {
				targets = append(targets, t)
			}
		}
	}
	p2 := func(k uint) *big.Int { return new(big.Int).Lsh(big.NewInt(1), k) }
	add(p2(24), -3, 3)
	add(p2(53), -4, 8)
	add(p2(62), -3, 3)
	add(p2(63), -4, 4)
	add(new(big.Int).Sub(p2(64), big.NewInt(1)), -8, 0)
	for _, k := range []uint{31, 32, 40, 54, 55, 60} {
		add(p2(k), -2, 3)
	}
	reps := run.Pick(6, 60)
	for _, T := range targets {
		for rep := 0; rep < reps; rep++ {
			n := 4 + rng.Intn(9)
			ws := splitTotal(T, n, rng, rep%3)
			c.vector(ws, rng, "boundary-total")
		}
	}
	// random 64-bit totals
	for k := 0; k < run.Pick(1500, 60000); k++ {
		n := 4 + rng.Intn(9)
		bits := uint(3 + rng.Intn(61))
		T := new(big.Int).Rand(rng, p2(bits))
		T.Add(T, big.NewInt(int64(n)))
		if T.BitLen() > 64 {
			continue
		}
		c.vector(splitTotal(T, n, rng, k%3), rng, "random-total")
	}
	// committees of more than 64 members
	for k := 0; k < run.Pick(120, 3000); k++ {
		n := 65 + rng.Intn(140)
		ws := make([]uint64, n)
		for i := range ws {
			switch k % 3 {
			case 0:
				ws[i] = 1
			case 1:
				ws[i] = uint64(1 + rng.Intn(5))
			default:
				ws[i] = uint64(rng.Intn(1 << 20))
			}
		}
		c.large(ws, rng)
	}
	// one committee slice re-filled in place between evaluations
	for k := 0; k < run.Pick(200, 4000); k++ {
		c.reused(rng, 6)
	}
	cov := map[string]interface{}{
		"evaluations":         c.evals,
		"distinct_nontrivial": len(c.distinct),
		"rule":                "committees of 65..204 members (equal / small / random weights; subsets by density, one member named many times, repeats, strangers); weight vectors: every vector of n=4..5 members with weights 1.." + fmt.Sprint(maxW) + " (exhaustive), vectors with zero-weight members, totals around 2^24, 2^31, 2^32, 2^40, 2^53-4..2^53+8, 2^54, 2^55, 2^60, 2^62, 2^63+-4, 2^64-9..2^64-1 split over 4..12 members (even / one heavy / skewed), random totals of 3..64 bits; per vector every subset (n<=10) or 300 sampled subsets, all quorum pairs (<=4000), id lists with duplicates/strangers/empty ids. distinct = distinct (family, n, total); all are non-trivial (each exercises thresholds and subset verdicts); plus committee slices re-filled in place with other weights between evaluations (equal / graded / huge / small weights in turn), every verdict judged against the weights present at the call",
		"samples":             c.samples,
		"weight_vectors":      c.vectors,
		"violations_by_rule":  c.byRule,
	}
	var inc []string
	if C06Extra != nil {
		fs, ev, i := C06Extra(run)
		c.findings = append(c.findings, fs...)
		inc = i
		for k, v := range ev {
			cov[k] = v
		}
	}
	run.WriteEvidence("exploration", cov, []string{"math/big as arithmetic reference", "totals above 64 bits are outside the property (skipped)"}, len(c.findings))
	fmt.Printf("C06 %s: vectors=%d evaluations=%d distinct=%d\n", run.Tier, c.vectors, c.evals, len(c.distinct))
	return run.Conclude(c.findings, inc)
}

// splitTotal splits T into n positive weights (shape 0: even, 1: one heavy member, 2: skewed random).
func splitTotal(T *big.Int, n int, rng *rand.Rand, shape int) []uint64 {
	ws := make([]uint64, n)
	rest := new(big.Int).Set(T)
	for i := 0; i < n-1; i++ {
		left := int64(n - 1 - i)
		max := new(big.Int).Sub(rest, big.NewInt(left)) // leave at least 1 for each remaining
		if max.Sign() <= 0 {
			ws[i] = 1
			rest.Sub(rest, big.NewInt(1))
			continue
		}
		var w *big.Int
		switch shape {
		case 0:
			w = new(big.Int).Div(rest, big.NewInt(left+1))
		case 1:
			if i == 0 {
				w = new(big.Int).Div(new(big.Int).Mul(max, big.NewInt(int64(30+rng.Intn(40)))), big.NewInt(100))
			} else {
				w = new(big.Int).Div(rest, big.NewInt(left+1))
			}
		default:
			w = new(big.Int).Rand(rng, max)
		}
		if w.Sign() <= 0 {
			w = big.NewInt(1)
		}
		if w.Cmp(max) > 0 {
			w = max
		}
		ws[i] = w.Uint64()
		rest.Sub(rest, w)
	}
	ws[n-1] = rest.Uint64()
	rng.Shuffle(n, func(i, j int) { ws[i], ws[j] = ws[j], ws[i] })
	return ws
}
