package unit

import (
	"encoding/json"
	"os"
)

func readJSON(path string, v interface{}) error {
	b, err := os.ReadFile(path)
	if err != nil {
		return err
	}
	return json.Unmarshal(b, v)
}
