package unit

import (
	"bytes"
	"context"
	"crypto/sha256"
	"errors"
	"fmt"
	"math/rand"

	"github.com/orbs-network/lean-helix-go/services/blockproof"
	"github.com/orbs-network/lean-helix-go/services/interfaces"
	"github.com/orbs-network/lean-helix-go/services/messagesfactory"
	"github.com/orbs-network/lean-helix-go/services/preparedmessages"
	"github.com/orbs-network/lean-helix-go/services/randomseed"
	"github.com/orbs-network/lean-helix-go/spec/types/go/primitives"
	"github.com/orbs-network/lean-helix-go/spec/types/go/protocol"

	"verif/harness"
	"verif/ref"
	"verif/spi"
)

// varKM signs with signatures and shares of content- and member-dependent length 0..256
// (arbitrary bytes), and verifies by recomputation under the claimed sender id.
type varKM struct {
	me     []byte
	sigLen func(id, content []byte) int
}

func stretch(seed []byte, n int) []byte {
	out := make([]byte, 0, n+32)
	ctr := byte(0)
	for len(out) < n {
		h := sha256.Sum256(append(append([]byte{ctr}, seed...), ctr))
		out = append(out, h[:]...)
		ctr++
	}
	return out[:n]
}

func (k *varKM) sig(tag string, id []byte, h uint64, content []byte) []byte {
	n := k.sigLen(id, content)
	seed := spi.Mac(append([]byte("key-of/"), id...), []byte(tag), spi.U64(h), content)
	return stretch(seed, n)
}
func (k *varKM) SignConsensusMessage(ctx context.Context, h primitives.BlockHeight, content []byte) primitives.Signature {
	return k.sig("CM", k.me, uint64(h), content)
}
func (k *varKM) VerifyConsensusMessage(h primitives.BlockHeight, content []byte, sender *protocol.SenderSignature) error {
	if !bytes.Equal(k.sig("CM", sender.MemberId(), uint64(h), content), sender.Signature()) {
		return errors.New("bad signature")
	}
	return nil
}
func (k *varKM) SignRandomSeed(ctx context.Context, h primitives.BlockHeight, content []byte) primitives.RandomSeedSignature {
	return k.sig("RS", k.me, uint64(h), content)
}
func (k *varKM) VerifyRandomSeed(h primitives.BlockHeight, content []byte, sender *protocol.SenderSignature) error {
	if !bytes.Equal(k.sig("RS", sender.MemberId(), uint64(h), content), sender.Signature()) {
		return errors.New("bad share")
	}
	return nil
}
func (k *varKM) AggregateRandomSeed(h primitives.BlockHeight, shares []*protocol.SenderSignature) primitives.RandomSeedSignature {
	hh := sha256.New()
	for _, s := range shares {
		hh.Write(s.MemberId())
		hh.Write([]byte{0})
		hh.Write(s.Signature())
		hh.Write([]byte{1})
	}
	return append([]byte("agg:"), hh.Sum(nil)...)
}

type c20 struct {
	findings   []harness.Finding
	byRule     map[string]int
	evals      int
	distinct   map[string]bool
	samples    []interface{}
	rng        *rand.Rand
	lenMode    int
	largeBytes int
	big        bool
	envelope   *interfaces.ConsensusRawMessage // one raw-message struct refilled with every message ("independent of how the bytes were produced")
	prevRaw    *interfaces.ConsensusRawMessage // the previous message's raw form (already parsed once)
}

func (c *c20) bad(rule, d string) {
	c.byRule[rule]++
	if c.byRule[rule] > 3 {
		return
	}
	path := harness.ReplayPath("C20", fmt.Sprintf("%s-%d", rule, c.byRule[rule]))
	harness.WriteJSON(path, map[string]interface{}{"property": "C20", "rule": rule, "detail": d})
	c.findings = append(c.findings, harness.Finding{Prop: "C20", Rule: rule, Detail: d, Replay: path})
}

func (c *c20) u64() uint64 {
	switch c.rng.Intn(6) {
	case 0:
		return uint64(c.rng.Intn(10))
	case 1:
		return []uint64{0, 1<<31 - 1, 1 << 31, 1<<32 - 1, 1 << 32, 1<<63 - 1, 1 << 63, ^uint64(0) - 1, ^uint64(0)}[c.rng.Intn(9)]
	default:
		return c.rng.Uint64() >> uint(c.rng.Intn(64))
	}
}

func (c *c20) bytesN(max int) []byte {
	n := 0
	switch c.rng.Intn(5) {
	case 0:
		n = 0
	case 1:
		n = 1 + c.rng.Intn(8)
	case 2:
		n = 32
	case 3:
		n = max
	default:
		n = c.rng.Intn(max + 1)
	}
	b := make([]byte, n)
	c.rng.Read(b)
	return b
}

func (c *c20) factory(inst uint64, id []byte, seed uint64) (*messagesfactory.MessageFactory, *varKM) {
	mode := c.lenMode
	km := &varKM{me: id, sigLen: func(id, content []byte) int {
		h := sha256.Sum256(append(append([]byte{byte(mode)}, id...), content...))
		switch mode % 4 {
		case 0:
			return 32
		case 1:
			return int(h[0]) % 9 // short, often empty
		case 2:
			return 256
		default:
			return (int(h[0])<<8 | int(h[1])) % 257
		}
	}}
	return messagesfactory.NewMessageFactory(primitives.InstanceId(inst), km, primitives.MemberId(id), seed), km
}

// roundTrip converts to raw and back, checks type, determinism and header/sender fields, returns the decoded form.
func (c *c20) roundTrip(what string, m interfaces.ConsensusMessage, km *varKM, wantType ref.MT, inst, h, v uint64, sender []byte, blk *spi.Blk) *ref.Msg {
	c.evals++
	raw := m.ToConsensusRawMessage()
	// the same bytes in a fresh buffer of another capacity
	cp := make([]byte, len(raw.Content), len(raw.Content)+1+c.rng.Intn(64))
	copy(cp, raw.Content)
	// ... which continues behind the message (the next frame of a receive buffer): parsing must leave those bytes alone
	behind := cp[len(cp):cap(cp)]
	for i := range behind {
		behind[i] = 0xA5
	}
	raw2 := &interfaces.ConsensusRawMessage{Content: cp, Block: raw.Block}
	back := interfaces.ToConsensusMessage(raw2)
	for i := range behind {
		if behind[i] != 0xA5 {
			c.bad("parser-wrote-outside-the-bytes-it-was-given", fmt.Sprintf("%s: content of %d bytes inside a buffer of %d: after parsing, byte %d behind the content reads %#x (was 0xa5) — the next message in that buffer is corrupted", what, len(cp), cap(cp), i, behind[i]))
			break
		}
	}
	if back == nil {
		c.bad("round-trip-yields-no-message", fmt.Sprintf("%s: h=%d v=%d inst=%d sender=%x", what, h, v, inst, sender))
		return nil
	}
	if back.MessageType() != wantType || m.MessageType() != wantType {
		c.bad("type-changed", fmt.Sprintf("%s: type %v -> %v", what, m.MessageType(), back.MessageType()))
	}
	if uint64(back.InstanceId()) != inst || uint64(back.BlockHeight()) != h || uint64(back.View()) != v || !bytes.Equal(back.SenderMemberId(), sender) {
		c.bad("header-field-changed", fmt.Sprintf("%s: built (inst=%d h=%d v=%d sender=%x), read back (inst=%d h=%d v=%d sender=%x)", what, inst, h, v, sender, uint64(back.InstanceId()), uint64(back.BlockHeight()), uint64(back.View()), []byte(back.SenderMemberId())))
	}
	if !bytes.Equal(back.Raw(), m.Raw()) {
		c.bad("content-bytes-changed", fmt.Sprintf("%s: content differs after raw round trip", what))
	}
	// parsing depends on the bytes only: the same bytes in an envelope that was used (and parsed) for other messages before,
	// and in a by-value copy of an already parsed raw message whose content is replaced, read back as the same message
	if c.envelope == nil {
		c.envelope = &interfaces.ConsensusRawMessage{}
	}
	c.envelope.Content, c.envelope.Block = cp, raw.Block
	viaEnvelope := interfaces.ToConsensusMessage(c.envelope)
	var viaCopy interfaces.ConsensusMessage
	if c.prevRaw != nil {
		cpy := *c.prevRaw
		cpy.Content, cpy.Block = cp, raw.Block
		viaCopy = interfaces.ToConsensusMessage(&cpy)
	}
	for name, x := range map[string]interface{}{"a refilled envelope": viaEnvelope, "a copied raw message with replaced content": viaCopy} {
		if name == "a copied raw message with replaced content" && c.prevRaw == nil {
			continue
		}
		xm, _ := x.(interfaces.ConsensusMessage)
		if xm == nil || xm.MessageType() != back.MessageType() || xm.View() != back.View() || xm.BlockHeight() != back.BlockHeight() || !bytes.Equal(xm.Raw(), back.Raw()) || !bytes.Equal(xm.SenderMemberId(), back.SenderMemberId()) {
			c.bad("parse-depends-on-the-envelope-history", fmt.Sprintf("%s: the same bytes parsed through %s read back as another message (type %v view %d vs type %v view %d)", what, name, typeOf(xm), viewOf(xm), back.MessageType(), uint64(back.View())))
		}
	}
	c.prevRaw = raw2
	// the block that travels next to the content: the same on the typed message that was parsed back, and after a second leg
	typedBlock := func(x interfaces.ConsensusMessage) (interfaces.Block, bool) {
		switch t := x.(type) {
		case *interfaces.PreprepareMessage:
			return t.Block(), true
		case *interfaces.ViewChangeMessage:
			return t.Block(), true
		case *interfaces.NewViewMessage:
			return t.Block(), true
		}
		return nil, false
	}
	if b0, carries := typedBlock(m); carries {
		b1, _ := typedBlock(back)
		if (b0 == nil) != (b1 == nil) || (b0 != nil && spi.AsBlk(b0) != spi.AsBlk(b1)) {
			c.bad("block-changed", fmt.Sprintf("%s: the parsed message's block differs from the built message's block (built %v, parsed %v)", what, b0, b1))
		}
		raw3 := back.ToConsensusRawMessage()
		if (raw3.Block == nil) != (raw.Block == nil) || !bytes.Equal(raw3.Content, raw.Content) {
			c.bad("second-leg-differs", fmt.Sprintf("%s: raw -> typed -> raw changed the content or dropped / added the block", what))
		}
	}
	d1, ok1 := ref.Decode(raw)
	d2, ok2 := ref.Decode(raw2)
	if !ok1 || !ok2 {
		c.bad("round-trip-undecodable", what)
		return nil
	}
	if fmt.Sprintf("%+v|%+v|%v", *d1, d1.Vote, d1.Votes) == "" {
		return nil
	}
	if !sameMsg(d1, d2) {
		c.bad("parse-not-deterministic", fmt.Sprintf("%s: two parses of the same bytes differ", what))
	}
	if (blk == nil) != (d2.Block == nil) || (blk != nil && d2.Block != blk) {
		c.bad("block-changed", what)
	}
	// the sender's signature still verifies over the re-read header
	if err := km.VerifyConsensusMessage(primitives.BlockHeight(h), d2.HdrRaw, (&protocol.SenderSignatureBuilder{MemberId: primitives.MemberId(d2.Sender.Id), Signature: d2.Sender.Sig}).Build()); err != nil {
		c.bad("signature-no-longer-verifies", fmt.Sprintf("%s: h=%d v=%d sender=%x siglen=%d", what, h, v, sender, len(d2.Sender.Sig)))
	}
	return d2
}

func sameMsg(a, b *ref.Msg) bool {
	if a.Env != b.Env || a.Type != b.Type || a.Inst != b.Inst || a.H != b.H || a.V != b.V || !bytes.Equal(a.Hash, b.Hash) || !bytes.Equal(a.HdrRaw, b.HdrRaw) ||
		a.Sender.Id != b.Sender.Id || !bytes.Equal(a.Sender.Sig, b.Sender.Sig) || !bytes.Equal(a.Share, b.Share) || len(a.Votes) != len(b.Votes) {
		return false
	}
	if (a.Vote == nil) != (b.Vote == nil) || (a.Vote != nil && !bytes.Equal(a.Vote.Raw, b.Vote.Raw)) {
		return false
	}
	for i := range a.Votes {
		if (a.Votes[i] == nil) != (b.Votes[i] == nil) || (a.Votes[i] != nil && !bytes.Equal(a.Votes[i].Raw, b.Votes[i].Raw)) {
			return false
		}
	}
	return true
}

type preparedFix struct {
	pm     *preparedmessages.PreparedMessages
	leader []byte
	ppSig  []byte
	ids    [][]byte
	sigs   [][]byte
	hash   []byte
	view   uint64
	blk    *spi.Blk
	pview  uint64 // what the PREPAREs were signed over (usually the proposal's view and hash; sometimes not: the factory
	phash  []byte // copies what it is given, consistency is the protocol's business)
}

func (c *c20) prepared(inst, h uint64, nPrep int) *preparedFix {
	view := c.u64()
	hash := c.bytesN(64)
	blk := &spi.Blk{H: h, Body: fmt.Sprintf("b%d", c.rng.Intn(1000))}
	leader := c.bytesN(40)
	if c.big {
		leader = make([]byte, 256)
		c.rng.Read(leader)
	}
	fl, _ := c.factory(inst, leader, 1)
	ppm := fl.CreatePreprepareMessage(primitives.BlockHeight(h), primitives.View(view), blk, hash)
	fix := &preparedFix{leader: leader, ppSig: ppm.Content().Sender().Signature(), hash: hash, view: view, blk: blk, pview: view, phash: hash}
	if nPrep > 0 && c.rng.Intn(4) == 0 {
		fix.pview, fix.phash = c.u64(), c.bytesN(64)
	}
	var pms []*interfaces.PrepareMessage
	for i := 0; i < nPrep; i++ {
		id := append(c.bytesN(30), byte(i))
		if c.big {
			id = make([]byte, 256)
			c.rng.Read(id)
			id[0] = byte(i)
		}
		fp, _ := c.factory(inst, id, 1)
		pm := fp.CreatePrepareMessage(primitives.BlockHeight(h), primitives.View(fix.pview), fix.phash)
		pms = append(pms, pm)
		fix.ids = append(fix.ids, id)
		fix.sigs = append(fix.sigs, pm.Content().Sender().Signature())
	}
	fix.pm = &preparedmessages.PreparedMessages{PreprepareMessage: ppm, PrepareMessages: pms}
	if nPrep == 0 {
		fix.pm.PrepareMessages = nil
	}
	return fix
}

func (c *c20) checkProof(what string, p *ref.Proof, fix *preparedFix, inst, h uint64, km *varKM) {
	if p == nil || p.PPRef == nil || p.PPSender == nil {
		c.bad("nested-proof-lost", what)
		return
	}
	if p.PPRef.Type != ref.PP || p.PPRef.Inst != inst || p.PPRef.H != h || p.PPRef.V != fix.view || !bytes.Equal(p.PPRef.Hash, fix.hash) || p.PPSender.Id != string(fix.leader) || !bytes.Equal(p.PPSender.Sig, fix.ppSig) {
		c.bad("nested-proof-preprepare-part-changed", what)
	}
	if err := km.VerifyConsensusMessage(primitives.BlockHeight(h), p.PPRef.Raw, p.PPSender.Builder().Build()); err != nil {
		c.bad("nested-proof-preprepare-signature-no-longer-verifies", what)
	}
	if len(fix.ids) == 0 {
		return
	}
	if p.PRef == nil || p.PRef.Type != ref.P || p.PRef.Inst != inst || p.PRef.H != h || p.PRef.V != fix.pview || !bytes.Equal(p.PRef.Hash, fix.phash) {
		c.bad("nested-proof-prepare-ref-changed", what)
		return
	}
	if len(p.PSenders) != len(fix.ids) {
		c.bad("nested-proof-prepare-senders-count-changed", fmt.Sprintf("%s: %d -> %d", what, len(fix.ids), len(p.PSenders)))
		return
	}
	for i := range fix.ids {
		if p.PSenders[i].Id != string(fix.ids[i]) || !bytes.Equal(p.PSenders[i].Sig, fix.sigs[i]) {
			c.bad("nested-proof-prepare-sender-changed", fmt.Sprintf("%s: sender %d", what, i))
		}
		if err := km.VerifyConsensusMessage(primitives.BlockHeight(h), p.PRef.Raw, p.PSenders[i].Builder().Build()); err != nil {
			c.bad("nested-proof-prepare-signature-no-longer-verifies", fmt.Sprintf("%s: sender %d", what, i))
		}
	}
}

func (c *c20) one(i int) {
	c.lenMode = c.rng.Intn(8)
	if i%600 == 5 {
		c.lenMode = 2 // the large NEW_VIEW case: 256-byte signatures throughout
	}
	inst, h, v := c.u64(), c.u64(), c.u64()
	me := c.bytesN(256)
	seed := c.u64()
	f, km := c.factory(inst, me, seed)
	hash := c.bytesN(256)
	blk := &spi.Blk{H: h, Body: "blk"}
	H, V := primitives.BlockHeight(h), primitives.View(v)
	key := ""
	switch i % 6 {
	case 0:
		b := blk
		if c.rng.Intn(4) == 0 {
			b = nil
		}
		var ib interfaces.Block
		if b != nil {
			ib = b
		}
		d := c.roundTrip("PREPREPARE", f.CreatePreprepareMessage(H, V, ib, hash), km, ref.PP, inst, h, v, me, b)
		if d != nil && !bytes.Equal(d.Hash, hash) {
			c.bad("hash-changed", "PREPREPARE")
		}
		key = fmt.Sprintf("PP|%d|%d|%v", len(hash), len(me), b == nil)
	case 1:
		d := c.roundTrip("PREPARE", f.CreatePrepareMessage(H, V, hash), km, ref.P, inst, h, v, me, nil)
		if d != nil && !bytes.Equal(d.Hash, hash) {
			c.bad("hash-changed", "PREPARE")
		}
		key = fmt.Sprintf("P|%d|%d", len(hash), len(me))
	case 2:
		cm := f.CreateCommitMessage(H, V, hash)
		d := c.roundTrip("COMMIT", cm, km, ref.C, inst, h, v, me, nil)
		if d != nil {
			if !bytes.Equal(d.Hash, hash) {
				c.bad("hash-changed", "COMMIT")
			}
			want := km.SignRandomSeed(context.Background(), H, randomseed.RandomSeedToBytes(seed))
			if !bytes.Equal(d.Share, want) {
				c.bad("share-changed", fmt.Sprintf("COMMIT: share of %d bytes read back as %d bytes", len(want), len(d.Share)))
			}
			if err := km.VerifyRandomSeed(H, randomseed.RandomSeedToBytes(seed), (&protocol.SenderSignatureBuilder{MemberId: primitives.MemberId(d.Sender.Id), Signature: primitives.Signature(d.Share)}).Build()); err != nil {
				c.bad("share-no-longer-verifies", "COMMIT")
			}
		}
		key = fmt.Sprintf("C|%d|%d", len(hash), len(me))
	case 3, 4:
		var fix *preparedFix
		var pm *preparedmessages.PreparedMessages
		if c.rng.Intn(3) > 0 {
			fix = c.prepared(inst, h, c.rng.Intn(21))
			pm = fix.pm
		}
		vcm := f.CreateViewChangeMessage(H, V, pm)
		var b *spi.Blk
		if fix != nil {
			b = fix.blk
		}
		d := c.roundTrip("VIEW_CHANGE", vcm, km, ref.VC, inst, h, v, me, b)
		if d != nil {
			if (d.Vote.Proof != nil) != (fix != nil) {
				c.bad("nested-proof-presence-changed", fmt.Sprintf("VIEW_CHANGE: built with proof=%v, read back proof=%v", fix != nil, d.Vote.Proof != nil))
			} else if fix != nil {
				c.checkProof("VIEW_CHANGE", d.Vote.Proof, fix, inst, h, km)
			}
		}
		np := -1
		if fix != nil {
			np = len(fix.ids)
		}
		key = fmt.Sprintf("VC|%d|%d", np, len(me))
	case 5:
		nv := c.rng.Intn(21)
		large := i%600 == 5 // a NEW_VIEW of a few hundred kilobytes: 20 votes, each with a proof of 20 senders, 256-byte ids and signatures
		if large {
			nv = 20
		}
		c.big = large
		var vcms []*interfaces.ViewChangeMessage
		var fixes []*preparedFix
		var voters [][]byte
		var blkOut *spi.Blk
		for k := 0; k < nv; k++ {
			id := append(c.bytesN(20), byte(k))
			fv, _ := c.factory(inst, id, seed)
			var fix *preparedFix
			var pm *preparedmessages.PreparedMessages
			if c.rng.Intn(2) == 0 || large {
				np := c.rng.Intn(6)
				if large {
					np = 20
				}
				fix = c.prepared(inst, h, np)
				pm = fix.pm
			}
			vcms = append(vcms, fv.CreateViewChangeMessage(H, V, pm))
			fixes = append(fixes, fix)
			voters = append(voters, id)
		}
		blkOut = blk
		ppb := f.CreatePreprepareMessageContentBuilder(H, V, blkOut, hash)
		var ppmFirst *interfaces.PreprepareMessage
		switch c.rng.Intn(4) {
		case 0: // the factory builds other messages between the proposal's content and the NEW_VIEW that embeds it
			f.CreatePrepareMessage(H, primitives.View(c.u64()), c.bytesN(40))
		case 1:
			f.CreateCommitMessage(H, primitives.View(c.u64()), c.bytesN(40))
		case 2: // ... or the standalone proposal from the same content first
			ppmFirst = f.CreatePreprepareMessageFromContentBuilder(ppb, blkOut)
			f.CreatePreprepareMessage(H, primitives.View(c.u64()), blkOut, c.bytesN(40))
		}
		nvm := f.CreateNewViewMessage(H, V, ppb, interfaces.ExtractConfirmationsFromViewChangeMessages(vcms), blkOut)
		if ppmFirst != nil {
			if dd, ok := ref.Decode(ppmFirst.ToConsensusRawMessage()); !ok || km.VerifyConsensusMessage(H, dd.HdrRaw, dd.Sender.Builder().Build()) != nil {
				c.bad("signature-no-longer-verifies", "PREPREPARE built from a content builder, after later messages of the same factory")
			}
		}
		d := c.roundTrip("NEW_VIEW", nvm, km, ref.NV, inst, h, v, me, blkOut)
		if d != nil {
			if len(d.Votes) != nv {
				c.bad("votes-count-changed", fmt.Sprintf("NEW_VIEW: %d votes built, %d read back", nv, len(d.Votes)))
			} else {
				for k, vt := range d.Votes {
					orig := ref.VoteOf(vcms[k].Content())
					if vt == nil || vt.Sender.Id != string(voters[k]) || vt.Type != ref.VC || vt.Inst != inst || vt.H != h || vt.V != v {
						c.bad("embedded-vote-changed", fmt.Sprintf("NEW_VIEW vote %d", k))
						continue
					}
					if !bytes.Equal(vt.HdrRaw, orig.HdrRaw) {
						c.bad("embedded-vote-header-bytes-differ-from-the-signed-bytes", fmt.Sprintf("NEW_VIEW vote %d of %d (proof=%v)", k, nv, fixes[k] != nil))
					}
					if err := km.VerifyConsensusMessage(H, vt.HdrRaw, vt.Sender.Builder().Build()); err != nil {
						c.bad("embedded-vote-signature-no-longer-verifies", fmt.Sprintf("NEW_VIEW vote %d of %d (proof=%v)", k, nv, fixes[k] != nil))
					}
					if (vt.Proof != nil) != (fixes[k] != nil) {
						c.bad("nested-proof-presence-changed", fmt.Sprintf("NEW_VIEW vote %d", k))
					} else if fixes[k] != nil {
						c.checkProof(fmt.Sprintf("NEW_VIEW vote %d", k), vt.Proof, fixes[k], inst, h, km)
					}
				}
			}
			if d.EmbPP == nil || d.EmbSig == nil || d.EmbPP.Type != ref.PP || d.EmbPP.Inst != inst || d.EmbPP.H != h || d.EmbPP.V != v || !bytes.Equal(d.EmbPP.Hash, hash) || d.EmbSig.Id != string(me) {
				c.bad("embedded-proposal-changed", "NEW_VIEW")
			} else if err := km.VerifyConsensusMessage(H, d.EmbPP.Raw, d.EmbSig.Builder().Build()); err != nil {
				c.bad("embedded-proposal-signature-no-longer-verifies", "NEW_VIEW")
			}
		}
		c.big = false
		key = fmt.Sprintf("NV|%d|%d|%v", nv, len(me), large)
		if large {
			c.largeBytes = len(nvm.ToConsensusRawMessage().Content)
		}
	}
	c.distinct[key] = true
	if len(c.samples) < 5 && i%1013 == 5 {
		c.samples = append(c.samples, map[string]interface{}{"kind": key, "instance": inst, "height": h, "view": v, "sender_len": len(me), "hash_len": len(hash), "sig_len_mode": c.lenMode})
	}
}

// series: one factory builds several messages before any of them is converted; each must still read back as built
// (a message must not share mutable storage with the factory or with its siblings).
func (c *c20) series() {
	c.lenMode = c.rng.Intn(8)
	inst, h := c.u64(), c.u64()
	me := c.bytesN(64)
	f, km := c.factory(inst, me, c.u64())
	H := primitives.BlockHeight(h)
	type item struct {
		kind int
		v    uint64
		hash []byte
		blk  *spi.Blk
		m    interfaces.ConsensusMessage
		fix  *preparedFix
	}
	var items []*item
	n := 2 + c.rng.Intn(5)
	for k := 0; k < n; k++ {
		it := &item{kind: c.rng.Intn(4), v: c.u64(), hash: c.bytesN(48)}
		if k > 0 && c.rng.Intn(2) == 0 {
			it.kind = items[k-1].kind // the same kind twice in a row is the interesting case
		}
		V := primitives.View(it.v)
		switch it.kind {
		case 0:
			it.blk = &spi.Blk{H: h, Body: fmt.Sprintf("s%d", k)}
			it.m = f.CreatePreprepareMessage(H, V, it.blk, it.hash)
		case 1:
			it.m = f.CreatePrepareMessage(H, V, it.hash)
		case 2:
			it.m = f.CreateCommitMessage(H, V, it.hash)
		case 3:
			it.fix = c.prepared(inst, h, c.rng.Intn(4))
			it.blk = it.fix.blk
			it.m = f.CreateViewChangeMessage(H, V, it.fix.pm)
		}
		items = append(items, it)
	}
	for k, it := range items {
		what := fmt.Sprintf("message %d of %d built by one factory (%s)", k+1, n, []string{"PREPREPARE", "PREPARE", "COMMIT", "VIEW_CHANGE"}[it.kind])
		d := c.roundTrip(what, it.m, km, []ref.MT{ref.PP, ref.P, ref.C, ref.VC}[it.kind], inst, h, it.v, me, it.blk)
		if d == nil {
			continue
		}
		if it.kind < 3 && !bytes.Equal(d.Hash, it.hash) {
			c.bad("hash-changed", what)
		}
		if it.kind == 3 && d.Vote != nil && d.Vote.Proof != nil {
			c.checkProof(what, d.Vote.Proof, it.fix, inst, h, km)
		}
	}
	// a prepared proof assembled from PREPAREs that one member's factory built one after the other (different views): the
	// proof for the earlier one must still be the earlier one
	if c.rng.Intn(2) == 0 {
		leader := c.bytesN(20)
		fl, _ := c.factory(inst, leader, 1)
		id := append(c.bytesN(20), 7)
		fp, _ := c.factory(inst, id, 1)
		v1, v2 := c.u64(), c.u64()
		h1, h2 := c.bytesN(32), c.bytesN(32)
		blk := &spi.Blk{H: h, Body: "series"}
		pp1 := fl.CreatePreprepareMessage(H, primitives.View(v1), blk, h1)
		p1 := fp.CreatePrepareMessage(H, primitives.View(v1), h1)
		sig1 := append([]byte{}, p1.Content().Sender().Signature()...)
		_ = fl.CreatePreprepareMessage(H, primitives.View(v2), blk, h2)
		_ = fp.CreatePrepareMessage(H, primitives.View(v2), h2)
		fix := &preparedFix{leader: leader, ppSig: pp1.Content().Sender().Signature(), hash: h1, view: v1, pview: v1, phash: h1, blk: blk, ids: [][]byte{id}, sigs: [][]byte{sig1}}
		fix.pm = &preparedmessages.PreparedMessages{PreprepareMessage: pp1, PrepareMessages: []*interfaces.PrepareMessage{p1}}
		vcm := f.CreateViewChangeMessage(H, primitives.View(v2), fix.pm)
		d := c.roundTrip("VIEW_CHANGE with a proof from messages built before later ones of the same factories", vcm, km, ref.VC, inst, h, v2, me, blk)
		if d != nil && d.Vote != nil {
			if d.Vote.Proof == nil {
				c.bad("nested-proof-lost", "series")
			} else {
				c.checkProof("VIEW_CHANGE with a proof from messages built before later ones of the same factories", d.Vote.Proof, fix, inst, h, km)
			}
		}
	}
	c.distinct[fmt.Sprintf("series|%d", n)] = true
}

// blockProofs: proofs generated from commit messages carry the commits' fields and signatures.
func (c *c20) blockProof() {
	c.lenMode = c.rng.Intn(8)
	inst, h, v := c.u64(), c.u64(), c.u64()
	hash := c.bytesN(64)
	seed := c.u64()
	n := 1 + c.rng.Intn(20)
	var cms []*interfaces.CommitMessage
	var ids [][]byte
	var km *varKM
	for i := 0; i < n; i++ {
		id := append(c.bytesN(24), byte(i))
		var f *messagesfactory.MessageFactory
		f, km = c.factory(inst, id, seed)
		cms = append(cms, f.CreateCommitMessage(primitives.BlockHeight(h), primitives.View(v), hash))
		ids = append(ids, id)
	}
	c.evals++
	p := blockproof.GenerateLeanHelixBlockProof(km, cms)
	rd := protocol.BlockProofReader(append([]byte{}, p.Raw()...))
	br := rd.BlockRef()
	if br.MessageType() != protocol.LEAN_HELIX_COMMIT || uint64(br.InstanceId()) != inst || uint64(br.BlockHeight()) != h || uint64(br.View()) != v || !bytes.Equal(br.BlockHash(), hash) {
		c.bad("block-proof-ref-differs-from-commits", fmt.Sprintf("inst=%d h=%d v=%d", inst, h, v))
	}
	it := rd.NodesIterator()
	k := 0
	for it.HasNext() {
		s := it.NextNodes()
		if k >= n {
			k++
			break
		}
		if !bytes.Equal(s.MemberId(), ids[k]) || !bytes.Equal(s.Signature(), cms[k].Content().Sender().Signature()) {
			c.bad("block-proof-node-differs-from-commit", fmt.Sprintf("node %d of %d", k, n))
		}
		if err := km.VerifyConsensusMessage(primitives.BlockHeight(h), br.Raw(), s); err != nil {
			c.bad("block-proof-signature-does-not-verify-over-its-ref", fmt.Sprintf("node %d of %d", k, n))
		}
		k++
	}
	if k != n {
		c.bad("block-proof-node-count-differs-from-commits", fmt.Sprintf("%d commits (shares of lengths %v...) gave %d nodes", n, len(cms[0].Content().Share()), k))
	}
	var shares []*protocol.SenderSignature
	for i, cm := range cms {
		shares = append(shares, (&protocol.SenderSignatureBuilder{MemberId: primitives.MemberId(ids[i]), Signature: primitives.Signature(cm.Content().Share())}).Build())
	}
	if !bytes.Equal(rd.RandomSeedSignature(), km.AggregateRandomSeed(primitives.BlockHeight(h), shares)) {
		c.bad("block-proof-seed-signature-not-the-aggregate-of-all-shares", fmt.Sprintf("%d commits", n))
	}
	c.distinct[fmt.Sprintf("BP|%d|%d", n, len(cms[0].Content().Share()))] = true
}

func CheckC20(run *harness.Run) int {
	c := &c20{byRule: map[string]int{}, distinct: map[string]bool{}, rng: rand.New(rand.NewSource(run.Seed*15485863 + 20))}
	n := run.Pick(30000, 1500000)
	guard := func(what string, f func()) {
		defer func() {
			if r := recover(); r != nil {
				c.bad("panic-while-building-or-reading-messages", fmt.Sprintf("%s: %v", what, r))
			}
		}()
		f()
	}
	for i := 0; i < n; i++ {
		guard("single message", func() { c.one(i) })
		if i%10 == 0 {
			guard("block proof", c.blockProof)
		}
		if i%7 == 3 {
			guard("series of messages of one factory", c.series)
		}
	}
	cov := map[string]interface{}{
		"evaluations":            c.evals,
		"distinct_nontrivial":    len(c.distinct),
		"rule":                   "messages built by the real MessageFactory with generated values: instance / height / view over the 64-bit range (boundaries 2^31, 2^32, 2^63, 2^64-1), ids / hashes of 0..256 arbitrary bytes, signatures and shares of 0..256 bytes (content-dependent length), 0..20 prepare senders and 0..20 votes with/without proofs and blocks; converted to raw, copied into a buffer of another capacity, parsed back and compared field by field with the generator's inputs, signatures re-verified over the re-read bytes; block proofs from 1..20 commits; series of 2..6 messages built by one factory before any is converted (no shared storage between a factory's messages). distinct = (type, nested sizes, sender length) classes",
		"samples":                c.samples,
		"violations_by_rule":     c.byRule,
		"largest_new_view_bytes": c.largeBytes,
	}
	run.WriteEvidence("exploration", cov, []string{"variable-length recomputable signatures stand in for real ones", "the reference decoder reads with the generated readers (trusted)"}, len(c.findings))
	fmt.Printf("C20 %s: evaluations=%d distinct classes=%d\n", run.Tier, c.evals, len(c.distinct))
	return run.Conclude(c.findings, nil)
}

func typeOf(m interfaces.ConsensusMessage) interface{} {
	if m == nil {
		return "nil"
	}
	return m.MessageType()
}

func viewOf(m interfaces.ConsensusMessage) uint64 {
	if m == nil {
		return 0
	}
	return uint64(m.View())
}
