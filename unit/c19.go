package unit

import (
	"fmt"
	"math"
	"math/big"
	"math/rand"
	"runtime/pprof"
	"strings"
	"sync"
	"time"

	Electiontrigger "github.com/orbs-network/lean-helix-go/services/electiontrigger"
	"github.com/orbs-network/lean-helix-go/services/interfaces"
	"github.com/orbs-network/lean-helix-go/spec/types/go/primitives"

	"verif/harness"
)

type c19 struct {
	findings            []harness.Finding
	byRule              map[string]int
	supersededDelivered int
}

func (c *c19) bad(rule, d string) {
	c.byRule[rule]++
	if c.byRule[rule] > 3 {
		return
	}
	path := harness.ReplayPath("C19", fmt.Sprintf("%s-%d", rule, c.byRule[rule]))
	harness.WriteJSON(path, map[string]interface{}{"property": "C19", "rule": rule, "detail": d})
	c.findings = append(c.findings, harness.Finding{Prop: "C19", Rule: rule, Detail: d, Replay: path})
}

// formula: CalcTimeout(v) == min(base*2^v, MaxInt64), > 0, non-decreasing.
func (c *c19) formula(run *harness.Run) (evals int, distinct int, samples []interface{}) {
	bases := []time.Duration{1, 7, time.Microsecond, time.Millisecond, 250 * time.Millisecond, 4 * time.Second, time.Minute, time.Hour}
	var views []uint64
	for v := uint64(0); v <= 200; v++ {
		views = append(views, v)
	}
	for k := uint(8); k < 64; k++ {
		p := uint64(1) << k
		views = append(views, p-1, p, p+1)
	}
	views = append(views, ^uint64(0)-1, ^uint64(0))
	maxI := new(big.Int).SetInt64(math.MaxInt64)
	for _, base := range bases {
		et := Electiontrigger.NewTimerBasedElectionTrigger(base, nil)
		prev := time.Duration(0)
		for _, v := range views {
			evals++
			got := et.CalcTimeout(primitives.View(v))
			want := new(big.Int).SetInt64(int64(base))
			if v < 64 {
				want.Lsh(want, uint(v))
			} else {
				want.Set(maxI)
			}
			if want.Cmp(maxI) > 0 {
				want.Set(maxI)
			}
			if got <= 0 {
				c.bad("timeout-not-positive", fmt.Sprintf("base=%v view=%d: CalcTimeout=%d", base, v, int64(got)))
			} else if got < prev {
				c.bad("timeout-smaller-than-for-a-lower-view", fmt.Sprintf("base=%v view=%d: CalcTimeout=%d but a lower view had %d", base, v, int64(got), int64(prev)))
			}
			if new(big.Int).SetInt64(int64(got)).Cmp(want) != 0 {
				c.bad("timeout-not-base-times-2^view-saturating", fmt.Sprintf("base=%v view=%d: CalcTimeout=%d, want min(base*2^v, MaxInt64)=%s", base, v, int64(got), want))
			}
			if got > prev {
				prev = got
			}
			distinct++
		}
		samples = append(samples, map[string]interface{}{"base": base.String(), "views_checked": len(views), "CalcTimeout(33)": et.CalcTimeout(33).String(), "CalcTimeout(2^64-1)": et.CalcTimeout(primitives.View(^uint64(0))).String()})
	}
	return
}

func triggerGoroutines() int {
	var sb strings.Builder
	pprof.Lookup("goroutine").WriteTo(&sb, 2)
	n := 0
	for _, g := range strings.Split(sb.String(), "\n\n") {
		if strings.Contains(g, "electiontrigger.triggerElections") {
			n++
		}
	}
	return n
}

type armRec struct {
	h, v       uint64
	at         time.Time
	delivered  int
	superseded bool
	id         int
}

// script runs one random Register/Stop/read script against the real timer trigger; the harness is the
// only reader of the election channel, so it decides when (and whether) a trigger can be handed over.
func (c *c19) script(seed int64, base time.Duration, record *[]string) (received, judged int) {
	defer func() {
		if p := recover(); p != nil {
			c.bad("timer-api-panics", fmt.Sprintf("seed=%d base=%v: a Register / Stop / trigger-action call on the timer panicked: %v", seed, base, p))
		}
	}()
	r := rand.New(rand.NewSource(seed))
	et := Electiontrigger.NewTimerBasedElectionTrigger(base, nil)
	var mu sync.Mutex
	var arms []*armRec
	var cur *armRec
	var cbCalls []string
	mkcb := func(id int) func(h primitives.BlockHeight, v primitives.View, _ interfaces.OnElectionCallback) {
		return func(h primitives.BlockHeight, v primitives.View, _ interfaces.OnElectionCallback) {
			mu.Lock()
			cbCalls = append(cbCalls, fmt.Sprintf("%d:%d/%d", id, h, v))
			mu.Unlock()
		}
	}
	log := func(s string) {
		if record != nil {
			*record = append(*record, s)
		}
	}
	// a slow reader: the trigger was taken off the channel, its action runs later (after other registrations)
	type heldTrig struct {
		tr *interfaces.ElectionTrigger
		m  *armRec
	}
	var held []heldTrig
	runAction := func(tr *interfaces.ElectionTrigger, m *armRec, late bool) {
		mu.Lock()
		before := len(cbCalls)
		mu.Unlock()
		tr.MoveToNextLeader()
		mu.Lock()
		calls := append([]string{}, cbCalls[before:]...)
		mu.Unlock()
		want := fmt.Sprintf("%d:%d/%d", m.id, m.h, m.v)
		if len(calls) != 1 || calls[0] != want {
			c.bad("trigger-action-does-not-call-the-registered-handler-with-its-pair", fmt.Sprintf("seed=%d: the action of trigger %s (run %s) invoked %v, want [%s] (handler id : height/view)", seed, tr.Hv, map[bool]string{false: "at once", true: "after later registrations"}[late], calls, want))
		}
	}
	onTrigger := func(tr *interfaces.ElectionTrigger, now time.Time) {
		received++
		mu.Lock()
		var m *armRec
		for i := len(arms) - 1; i >= 0; i-- {
			if arms[i].h == uint64(tr.Hv.Height()) && arms[i].v == uint64(tr.Hv.View()) && arms[i].delivered == 0 {
				m = arms[i]
				break
			}
		}
		mu.Unlock()
		log(fmt.Sprintf("recv %s", tr.Hv))
		judged++
		if m == nil {
			c.bad("trigger-without-matching-arming", fmt.Sprintf("seed=%d base=%v: received trigger %s but no arming of that pair is outstanding (more than one trigger per arming, or a wrong pair)", seed, base, tr.Hv))
			return
		}
		m.delivered++
		if m.superseded {
			// the arming had been superseded (or stopped) by a call that returned before this read started
			c.supersededDelivered++
			c.bad("trigger-of-a-superseded-arming-delivered", fmt.Sprintf("seed=%d base=%v: trigger %s read from the channel after the timer had been re-armed for another pair or stopped (the call had returned before the read began)", seed, base, tr.Hv))
		}
		if el := now.Sub(m.at); el < et.CalcTimeout(primitives.View(m.v)) {
			c.bad("trigger-before-timeout", fmt.Sprintf("seed=%d base=%v: trigger %s after %v, timeout is %v", seed, base, tr.Hv, el, et.CalcTimeout(primitives.View(m.v))))
		}
		// the trigger's action must invoke the handler registered with that arming, with exactly that pair — also when the
		// reader runs it only after the timer has been armed for other pairs
		if r.Intn(3) == 0 {
			held = append(held, heldTrig{tr, m})
			log(fmt.Sprintf("hold %s", tr.Hv))
			return
		}
		runAction(tr, m, false)
	}
	steps := 3 + r.Intn(7)
	for s := 0; s < steps; s++ {
		switch r.Intn(5) {
		case 0, 1: // register
			h, v := uint64(1+r.Intn(2)), uint64(r.Intn(4))
			if r.Intn(6) == 0 {
				// a view whose timeout is saturated (or simply far beyond this script): the timer is armed and never fires here
				v = []uint64{40, 63, 64, 200, 1 << 32, ^uint64(0)}[r.Intn(6)]
			}
			mu.Lock()
			same := cur != nil && cur.h == h && cur.v == v && !cur.superseded
			var a *armRec
			if !same {
				if cur != nil {
					cur.superseded = true
				}
				a = &armRec{h: h, v: v, at: time.Now(), id: len(arms)}
				cur = a
				arms = append(arms, a)
			} else {
				a = cur
			}
			mu.Unlock()
			log(fmt.Sprintf("register %d/%d same=%v", h, v, same))
			et.RegisterOnElection(primitives.BlockHeight(h), primitives.View(v), mkcb(a.id))
		case 2: // stop
			mu.Lock()
			if cur != nil {
				cur.superseded = true
			}
			cur = nil
			mu.Unlock()
			log("stop")
			et.Stop()
		case 3, 4: // read with a bounded wait
			wait := time.Duration(r.Intn(14)) * base / 2
			select {
			case tr := <-et.ElectionChannel():
				onTrigger(tr, time.Now())
			case <-time.After(wait):
				log(fmt.Sprintf("read timed out after %v", wait))
			}
		}
		time.Sleep(time.Duration(r.Intn(3)) * base / 2)
	}
	// an armed, un-superseded, undelivered timer with a waiting reader delivers
	mu.Lock()
	cu := cur
	mu.Unlock()
	if cu != nil && cu.delivered == 0 && et.CalcTimeout(primitives.View(cu.v)) < 5*time.Second {
		limit := et.CalcTimeout(primitives.View(cu.v)) + 10*time.Second
		deadline := time.After(limit)
	wait:
		for {
			select {
			case tr := <-et.ElectionChannel():
				onTrigger(tr, time.Now())
				if cu.delivered > 0 {
					break wait
				}
			case <-deadline:
				c.bad("armed-timer-never-delivered", fmt.Sprintf("seed=%d base=%v: timer armed for %d/%d, not superseded, reader waiting: no trigger within %v", seed, base, cu.h, cu.v, limit))
				break wait
			}
		}
	}
	et.Stop()
	mu.Lock()
	for _, a := range arms {
		a.superseded = true
	}
	mu.Unlock()
	select {
	case tr := <-et.ElectionChannel():
		onTrigger(tr, time.Now())
	case <-time.After(6 * base):
	}
	for _, x := range held {
		runAction(x.tr, x.m, true)
	}
	return
}

// absentReader: the timer is armed and nobody reads the election channel for `absence` (far beyond the timeout); no
// Register / Stop happens meanwhile. The trigger must still be delivered, once, when the reader comes back.
func (c *c19) absentReader(seed int64, base, absence time.Duration) (ok bool) {
	defer func() {
		if p := recover(); p != nil {
			c.bad("timer-api-panics", fmt.Sprintf("seed=%d base=%v (absent reader): %v", seed, base, p))
		}
	}()
	r := rand.New(rand.NewSource(seed))
	et := Electiontrigger.NewTimerBasedElectionTrigger(base, nil)
	h, v := uint64(1+r.Intn(3)), uint64(r.Intn(3))
	called := 0
	et.RegisterOnElection(primitives.BlockHeight(h), primitives.View(v), func(hh primitives.BlockHeight, vv primitives.View, _ interfaces.OnElectionCallback) {
		if uint64(hh) == h && uint64(vv) == v {
			called++
		}
	})
	time.Sleep(absence)
	select {
	case tr := <-et.ElectionChannel():
		if uint64(tr.Hv.Height()) != h || uint64(tr.Hv.View()) != v {
			c.bad("trigger-without-matching-arming", fmt.Sprintf("absent reader: armed %d/%d, received %s", h, v, tr.Hv))
		}
		tr.MoveToNextLeader()
		if called != 1 {
			c.bad("trigger-action-does-not-call-the-registered-handler-with-its-pair", fmt.Sprintf("absent reader: handler calls=%d", called))
		}
		ok = true
	case <-time.After(et.CalcTimeout(primitives.View(v)) + 10*time.Second):
		c.bad("armed-timer-never-delivered", fmt.Sprintf("seed=%d base=%v: timer armed for %d/%d, never superseded or stopped; the reader was away for %v (timeout %v) and waited 10 s more: no trigger", seed, base, h, v, absence, et.CalcTimeout(primitives.View(v))))
	}
	select {
	case tr := <-et.ElectionChannel():
		c.bad("trigger-without-matching-arming", fmt.Sprintf("absent reader: a second trigger %s for one arming", tr.Hv))
	case <-time.After(20 * base):
	}
	et.Stop()
	return
}

// CheckC19Unit runs the formula table and the timer component scripts.
func CheckC19Unit(run *harness.Run) ([]harness.Finding, map[string]interface{}) {
	c := &c19{byRule: map[string]int{}}
	evals, distinct, samples := c.formula(run)
	scripts := run.Pick(240, 6000)
	base := 2 * time.Millisecond
	var mu sync.Mutex
	recv, judged := 0, 0
	var wg sync.WaitGroup
	sem := make(chan struct{}, 24)
	var sampleScript []string
	for i := 0; i < scripts; i++ {
		wg.Add(1)
		sem <- struct{}{}
		go func(i int) {
			defer wg.Done()
			defer func() { <-sem }()
			var rec *[]string
			if i == 3 {
				rec = &sampleScript
			}
			a, b := c.scriptLocked(&mu, run.Seed*1000003+int64(i), base, rec)
			mu.Lock()
			recv += a
			judged += b
			mu.Unlock()
		}(i)
	}
	// absent readers (in parallel with each other): away for 1.1 .. 3.5 s (thorough: .. 12 s)
	absent := run.Pick(8, 32)
	absentOK := 0
	for i := 0; i < absent; i++ {
		wg.Add(1)
		go func(i int) {
			defer wg.Done()
			sub := &c19{byRule: map[string]int{}}
			away := 1100*time.Millisecond + time.Duration(i%8)*time.Duration(run.Pick(340, 1500))*time.Millisecond
			ok := sub.absentReader(run.Seed*7919+int64(i), base, away)
			mu.Lock()
			if ok {
				absentOK++
			}
			for _, f := range sub.findings {
				c.byRule[f.Rule]++
				if c.byRule[f.Rule] <= 3 {
					c.findings = append(c.findings, f)
				}
			}
			mu.Unlock()
		}(i)
	}
	wg.Wait()
	// no timer goroutine may be left behind once every trigger was stopped
	left := -1
	for w := 0; w < 100; w++ {
		left = triggerGoroutines()
		if left == 0 {
			break
		}
		time.Sleep(20 * time.Millisecond)
	}
	if left != 0 {
		c.bad("timer-goroutine-left-after-stop", fmt.Sprintf("%d goroutines still inside triggerElections 2 s after every trigger was stopped", left))
	}
	samples = append(samples, map[string]interface{}{"timer_script": sampleScript})
	ev := map[string]interface{}{
		"formula_evaluations":        evals,
		"formula_distinct_base_view": distinct,
		"timer_scripts":              scripts,
		"triggers_received":          recv,
		"triggers_judged":            judged,
		"timer_goroutines_left":      left,
		"absent_reader_scripts":      absent,
		"absent_reader_delivered":    absentOK,
		"unit_samples":               samples,
		"unit_violations_by_rule":    c.byRule,
	}
	return c.findings, ev
}

// scriptLocked serialises the findings list (scripts run concurrently).
func (c *c19) scriptLocked(mu *sync.Mutex, seed int64, base time.Duration, rec *[]string) (int, int) {
	sub := &c19{byRule: map[string]int{}}
	a, b := sub.script(seed, base, rec)
	mu.Lock()
	for _, f := range sub.findings {
		c.byRule[f.Rule]++
		if c.byRule[f.Rule] <= 3 {
			c.findings = append(c.findings, f)
		}
	}
	mu.Unlock()
	return a, b
}

// TimerScripts runs n timer scripts sequentially-in-parallel (used by the rt engine's race-detector children).
func TimerScripts(seed int64, n int) (viol [][2]string, received, judged, leftover int) {
	c := &c19{byRule: map[string]int{}}
	var mu sync.Mutex
	var wg sync.WaitGroup
	sem := make(chan struct{}, 8)
	for i := 0; i < n; i++ {
		wg.Add(1)
		sem <- struct{}{}
		go func(i int) {
			defer wg.Done()
			defer func() { <-sem }()
			a, b := c.scriptLocked(&mu, seed*1000003+int64(i), 2*time.Millisecond, nil)
			mu.Lock()
			received += a
			judged += b
			mu.Unlock()
		}(i)
	}
	wg.Wait()
	for w := 0; w < 100; w++ {
		leftover = triggerGoroutines()
		if leftover == 0 {
			break
		}
		time.Sleep(20 * time.Millisecond)
	}
	if leftover != 0 {
		c.bad("timer-goroutine-left-after-stop", fmt.Sprintf("%d goroutines still inside triggerElections 2 s after every trigger was stopped", leftover))
	}
	for _, f := range c.findings {
		viol = append(viol, [2]string{f.Rule, f.Detail})
	}
	return
}
