package unit

import (
	"context"
	"fmt"
	"math/rand"

	leanhelix "github.com/orbs-network/lean-helix-go"
	"github.com/orbs-network/lean-helix-go/services/interfaces"
	"github.com/orbs-network/lean-helix-go/services/logger"
	"github.com/orbs-network/lean-helix-go/spec/types/go/primitives"
	"github.com/orbs-network/lean-helix-go/spec/types/go/protocol"
	"github.com/orbs-network/lean-helix-go/state"

	"verif/harness"
	"verif/ref"
	"verif/sim"
	"verif/spi"
)

type c02 struct {
	findings            []harness.Finding
	byRule              map[string]int
	evals               int
	accepted            int
	rejected            int
	refAcceptImplReject int
	classes             map[string]bool
	samples             []interface{}
	rng                 *rand.Rand
	keys                *spi.Keys
	ids                 []string
}

func (c *c02) bad(rule, d string, input map[string]interface{}) {
	c.byRule[rule]++
	if c.byRule[rule] > 3 {
		return
	}
	path := harness.ReplayPath("C02", fmt.Sprintf("%s-%d", rule, c.byRule[rule]))
	input["property"], input["rule"], input["detail"] = "C02", rule, d
	harness.WriteJSON(path, input)
	c.findings = append(c.findings, harness.Finding{Prop: "C02", Rule: rule, Detail: d, Replay: path})
}

type c02world struct {
	w    *leanhelix.WorkerLoop
	comm map[uint64][]interfaces.CommitteeMember
	desc string
	mem  *spi.Membership
}

func (c *c02) world() *c02world {
	n := 4 + c.rng.Intn(6)
	perm := c.rng.Perm(len(c.ids) - 2) // last two ids are outsiders
	weightsFor := func() []interfaces.CommitteeMember {
		var cm []interfaces.CommitteeMember
		shape := c.rng.Intn(5)
		if c.rng.Intn(12) == 0 {
			shape = 5
		}
		if c.rng.Intn(10) == 0 && n <= 5 {
			shape = 6
		}
		if c.rng.Intn(40) == 0 {
			return nil // the consumer reports an empty committee for this height
		}
		for i := 0; i < n; i++ {
			var w uint64
			switch shape {
			case 0:
				w = 1
			case 1:
				w = uint64(1 + c.rng.Intn(6))
			case 2:
				w = uint64(c.rng.Intn(3)) // zero-weight members
			case 6:
				w = 3<<60 + uint64(c.rng.Intn(3)) // totals beyond 2^63 (still within 64 bits for up to 5 members)
			case 5:
				w = 0 // a committee without any weight
			case 3:
				w = 1<<53 + uint64(c.rng.Intn(5))
			default:
				w = uint64(1 + c.rng.Intn(3))
				if i == 0 {
					w = uint64(n + c.rng.Intn(2*n))
				}
			}
			cm = append(cm, interfaces.CommitteeMember{Id: primitives.MemberId(c.ids[perm[i]]), Weight: primitives.MemberWeight(w)})
		}
		return cm
	}
	wd := &c02world{comm: map[uint64][]interfaces.CommitteeMember{}}
	// the committee depends on the height: members and weights change between h-1 and h
	for h := uint64(1); h <= 4; h++ {
		if h == 1 || c.rng.Intn(2) == 0 {
			perm = c.rng.Perm(len(c.ids) - 2)
			wd.comm[h] = weightsFor()
		} else {
			wd.comm[h] = wd.comm[h-1]
		}
	}
	st := state.NewState()
	cfg := &interfaces.Config{
		InstanceId: spi.InstanceId,
		// (in half of the worlds the committee contract is keyed by the previous block's reference time, as a time-keyed
		// contract is: asking it with another block's reference time yields another height's committee)
		Membership: &spi.Membership{Me: c.ids[0], KeyedByRefTime: c.rng.Intn(2) == 0, Committee: func(h uint64) []interfaces.CommitteeMember {
			if m, ok := wd.comm[h]; ok {
				return m
			}
			return wd.comm[1]
		}},
		BlockUtils: &spi.BlockUtils{Node: c.ids[0], Log: &spi.Log{}},
		KeyManager: c.keys.Signer(c.ids[0]),
	}
	wd.mem = cfg.Membership.(*spi.Membership)
	wd.w = leanhelix.NewWorkerLoop(st, cfg, logger.NewLhLogger(cfg, st), nil, nil, nil)
	return wd
}

type proofSpec struct {
	Type     protocol.MessageType
	Inst     uint64
	H, V     uint64
	Hash     []byte
	Signers  []string
	SigMode  []int // per signer: 0 genuine, 1 garbage, 2 signed by another key, 3 genuine signature over a PREPARE ref, 4 empty
	SeedMode int   // 0 genuine, 1 over another seed, 2 for another height, 3 garbage, 4 empty
}

func (c *c02) build(s *proofSpec, prevProof []byte) []byte {
	br := &protocol.BlockRefBuilder{MessageType: s.Type, InstanceId: primitives.InstanceId(s.Inst), BlockHeight: primitives.BlockHeight(s.H), View: primitives.View(s.V), BlockHash: s.Hash}
	raw := br.Build().Raw()
	var nodes []*protocol.SenderSignatureBuilder
	for i, id := range s.Signers {
		var sig []byte
		mode := 0
		if i < len(s.SigMode) {
			mode = s.SigMode[i]
		}
		switch mode {
		case 0:
			sig = c.keys.SignCM(id, s.H, raw)
		case 1:
			sig = make([]byte, 32)
			c.rng.Read(sig)
		case 2:
			sig = c.keys.SignCM(c.ids[(i+1)%len(c.ids)], s.H, raw)
		case 3:
			pr := &protocol.BlockRefBuilder{MessageType: protocol.LEAN_HELIX_PREPARE, InstanceId: primitives.InstanceId(s.Inst), BlockHeight: primitives.BlockHeight(s.H), View: primitives.View(s.V), BlockHash: s.Hash}
			sig = c.keys.SignCM(id, s.H, pr.Build().Raw())
		}
		nodes = append(nodes, &protocol.SenderSignatureBuilder{MemberId: primitives.MemberId(id), Signature: sig})
	}
	var prevSig []byte
	if len(prevProof) > 0 {
		func() {
			defer func() { recover() }()
			prevSig = protocol.BlockProofReader(prevProof).RandomSeedSignature()
		}()
	}
	seed := sim.SeedBytesOf(prevSig)
	var seedSig []byte
	switch s.SeedMode {
	case 0:
		seedSig = c.keys.MasterSeedSig(s.H, seed)
	case 1:
		seedSig = c.keys.MasterSeedSig(s.H, []byte("12345"))
	case 2:
		seedSig = c.keys.MasterSeedSig(s.H+1, seed)
	case 3:
		seedSig = make([]byte, 40)
		c.rng.Read(seedSig)
	}
	return (&protocol.BlockProofBuilder{BlockRef: br, Nodes: nodes, RandomSeedSignature: seedSig}).Build().Raw()
}

// signersOfWeight picks distinct members whose weight is as close as possible to (and per mode below/at) the target.
func (c *c02) pickSigners(cm *ref.Committee, mode int) []string {
	order := c.rng.Perm(cm.N())
	var ids []string
	for _, i := range order {
		id := string(cm.Members[i].Id)
		next := append(append([]string{}, ids...), id)
		switch mode {
		case 0: // exactly reaching quorum (stop as soon as it is reached)
			ids = next
			if cm.IsQuorum(ids) {
				return ids
			}
		case 1: // just below quorum
			if cm.IsQuorum(next) {
				continue
			}
			ids = next
		case 2: // just above f (soft boundary)
			ids = next
			if cm.AboveF(ids) {
				return ids
			}
		case 3: // at most f
			if cm.AboveF(next) {
				continue
			}
			ids = next
		case 4: // everybody
			ids = next
		}
	}
	return ids
}

func (c *c02) call(wd *c02world, blk *spi.Blk, proof []byte, prevBlk *spi.Blk, prevProof []byte, soft bool) (err error, panicked interface{}) {
	defer func() {
		if r := recover(); r != nil {
			panicked = r
		}
	}()
	var pb interfaces.Block
	if prevBlk != nil {
		pb = prevBlk
	}
	var b interfaces.Block
	if blk != nil {
		b = blk
	}
	err = wd.w.ValidateBlockConsensus(context.Background(), b, proof, pb, prevProof, soft)
	return
}

func (c *c02) judge(wd *c02world, what string, blk *spi.Blk, proof []byte, prevBlk *spi.Blk, prevProof []byte, class string) {
	for _, soft := range []bool{false, true} {
		c.evals++
		err, p := c.call(wd, blk, proof, prevBlk, prevProof, soft)
		input := map[string]interface{}{"what": what, "soft": soft, "proof_hex": fmt.Sprintf("%x", proof), "prev_proof_hex": fmt.Sprintf("%x", prevProof), "committee": wd.desc, "block": fmt.Sprint(blk)}
		if p != nil {
			c.bad("validate-block-consensus-panics", fmt.Sprintf("%s (soft=%v): %v", what, soft, p), input)
			continue
		}
		var why string
		if blk == nil {
			why = "nil-block"
		} else {
			cm := ref.NewCommittee(wd.comm[blk.H])
			if _, ok := wd.comm[blk.H]; !ok {
				cm = ref.NewCommittee(wd.comm[1])
			}
			why = sim.RefProofCheck(c.keys, cm, uint64(spi.InstanceId), blk, proof, prevProof, soft)
		}
		if err == nil {
			c.accepted++
			if why != "" {
				c.bad("accepted-without-genuine-certificate:"+why, fmt.Sprintf("%s (soft=%v): ValidateBlockConsensus returned nil but the reference says: %s", what, soft, why), input)
			}
		} else {
			c.rejected++
			if why == "" {
				c.refAcceptImplReject++
			}
		}
		c.classes[fmt.Sprintf("%s|soft=%v|ref=%s|impl=%v", class, soft, why, err == nil)] = true
	}
	// GetMemberIdsFromBlockProof on the same bytes
	func() {
		defer func() {
			if r := recover(); r != nil {
				c.bad("get-member-ids-panics", fmt.Sprintf("%s: %v", what, r), map[string]interface{}{"proof_hex": fmt.Sprintf("%x", proof)})
			}
		}()
		leanhelix.GetMemberIdsFromBlockProof(proof)
	}()
}

// C02Extra (set by the driver) adds the runtime half: overlapping validations under the race detector.
var C02Extra func(run *harness.Run) ([]harness.Finding, map[string]interface{}, []string)

func CheckC02(run *harness.Run) int {
	c := &c02{byRule: map[string]int{}, classes: map[string]bool{}, rng: rand.New(rand.NewSource(run.Seed*49979687 + 2))}
	for i := 0; i < 14; i++ {
		c.ids = append(c.ids, fmt.Sprintf("m%02d", i))
	}
	c.keys = spi.NewKeys(c.ids)
	inst := uint64(spi.InstanceId)
	worlds := run.Pick(3000, 60000)
	for wi := 0; wi < worlds; wi++ {
		wd := c.world()
		h := uint64(2 + c.rng.Intn(3))
		cm := ref.NewCommittee(wd.comm[h])
		if cm.N() == 0 || ref.NewCommittee(wd.comm[h-1]).N() == 0 {
			// empty committee: only the "nobody signed" certificate makes sense
			blk := &spi.Blk{H: h, Body: "b"}
			s := &proofSpec{Type: protocol.LEAN_HELIX_COMMIT, Inst: inst, H: h, Hash: spi.HashOf(blk)}
			wd.desc = fmt.Sprintf("h=%d members=%v", h, wd.comm[h])
			c.judge(wd, "empty committee, no signers", blk, c.build(s, nil), &spi.Blk{H: h - 1, Body: "prev"}, nil, "empty-committee")
			continue
		}
		wd.desc = fmt.Sprintf("h=%d members=%v; h-1 members=%v", h, wd.comm[h], wd.comm[h-1])
		blk := &spi.Blk{H: h, Body: fmt.Sprintf("block-%d", wi)}
		prevBlk := &spi.Blk{H: h - 1, Body: "prev"}
		// previous proof variants
		prevGenuine := c.build(&proofSpec{Type: protocol.LEAN_HELIX_COMMIT, Inst: inst, H: h - 1, Hash: spi.HashOf(prevBlk), Signers: c.pickSigners(ref.NewCommittee(wd.comm[h-1]), 4), SigMode: make([]int, 16)}, nil)
		prevs := [][]byte{prevGenuine, nil, {}, []byte("garbage-prev-proof")}
		prev := prevs[0]
		if c.rng.Intn(4) == 0 {
			prev = prevs[c.rng.Intn(len(prevs))]
		}
		base := func(mode int) *proofSpec {
			s := &proofSpec{Type: protocol.LEAN_HELIX_COMMIT, Inst: inst, H: h, V: uint64(c.rng.Intn(3)), Hash: spi.HashOf(blk), Signers: c.pickSigners(cm, mode)}
			s.SigMode = make([]int, len(s.Signers)+4)
			return s
		}
		// genuine certificates at the boundaries
		for mode := 0; mode <= 4; mode++ {
			c.judge(wd, fmt.Sprintf("signers mode %d", mode), blk, c.build(base(mode), prev), prevBlk, prev, fmt.Sprintf("boundary%d", mode))
		}
		// signed only by members of the previous height's committee (who may have been rotated out / re-weighted)
		{
			s := base(0)
			s.Signers = c.pickSigners(ref.NewCommittee(wd.comm[h-1]), 0)
			c.judge(wd, "signers are a quorum of the previous height's committee", blk, c.build(s, prev), prevBlk, prev, "prev-height-committee")
		}
		// the committee lookup fails once (contract unavailable / request cancelled): that validation must fail, and the next
		// one — of a certificate signed by the previous height's committee, right after a genuine certificate of the previous
		// height was validated — must be judged against this height's committee
		if wi%4 == 0 {
			pm := ref.NewCommittee(wd.comm[h-1])
			prevPrevBlk := &spi.Blk{H: h - 2, Body: "prev-prev"}
			if h >= 3 && pm.N() > 0 {
				gen := c.build(&proofSpec{Type: protocol.LEAN_HELIX_COMMIT, Inst: inst, H: h - 1, Hash: spi.HashOf(prevBlk), Signers: c.pickSigners(pm, 4), SigMode: make([]int, 16)}, nil)
				c.call(wd, prevBlk, gen, prevPrevBlk, nil, false) // step 1: the previous height's genuine certificate (fills whatever is cached)
			}
			wd.mem.OnProofRequest = func(ctx context.Context, hh uint64) error { return fmt.Errorf("committee contract unavailable") }
			err, p := c.call(wd, blk, c.build(base(0), prev), prevBlk, prev, false)
			wd.mem.OnProofRequest = nil
			c.evals++
			if p != nil {
				c.bad("validate-block-consensus-panics", fmt.Sprintf("committee lookup failed: %v", p), map[string]interface{}{"committee": wd.desc})
			} else if err == nil {
				c.bad("accepted-although-the-committee-lookup-failed", "ValidateBlockConsensus returned nil although RequestCommitteeForBlockProof returned an error: nothing was checked against a committee", map[string]interface{}{"committee": wd.desc})
			}
			s := base(0)
			s.Signers = c.pickSigners(pm, 0)
			c.judge(wd, "after a failed committee lookup: signers are a quorum of the previous height's committee", blk, c.build(s, prev), prevBlk, prev, "after-failed-lookup")
		}
		// the committee request is answered with the context's error because the caller's context was cancelled while it was
		// pending (a context-aware membership contract): whatever the certificate, that is not an acceptance
		if wi%4 == 1 {
			for _, variant := range []int{0, 1, 2} {
				s := base(0)
				what := "genuine certificate"
				switch variant {
				case 1:
					s.Signers = []string{c.ids[13]}
					s.SigMode = []int{1, 0, 0, 0, 0}
					what = "one outsider with a made-up signature"
				case 2:
					s.Signers = nil
					what = "no signers"
				}
				proof := c.build(s, prev)
				ctx, cancel := context.WithCancel(context.Background())
				wd.mem.OnProofRequest = func(rctx context.Context, hh uint64) error { cancel(); <-rctx.Done(); return rctx.Err() }
				var err error
				var p interface{}
				func() {
					defer func() { p = recover() }()
					err = wd.w.ValidateBlockConsensus(ctx, blk, proof, prevBlk, prev, variant == 2)
				}()
				wd.mem.OnProofRequest = nil
				cancel()
				c.evals++
				if p != nil {
					c.bad("validate-block-consensus-panics", fmt.Sprintf("committee request cancelled while pending: %v", p), map[string]interface{}{"committee": wd.desc})
				} else if err == nil {
					c.bad("accepted-although-the-committee-request-was-cancelled", fmt.Sprintf("ValidateBlockConsensus returned nil (%s) although the committee request ended with the context's error after the caller's context was cancelled while it was pending: nothing was checked against a committee", what), map[string]interface{}{"committee": wd.desc, "proof_hex": fmt.Sprintf("%x", proof)})
				}
			}
		}
		// proof bytes whose size prefixes wrap past 2^32: every aligned word of a genuine certificate replaced by ffffffff in turn,
		// and short strings that start with such a prefix (an error, never a crash — also not out of the error path itself)
		if wi%16 == 2 {
			g := c.build(base(0), prev)
			for off := 0; off+4 <= len(g) && off < 64; off += 4 {
				m := append([]byte{}, g...)
				copy(m[off:], []byte{0xff, 0xff, 0xff, 0xff})
				c.judge(wd, fmt.Sprintf("word at offset %d of a genuine certificate replaced by ffffffff", off), blk, m, prevBlk, prev, "wrapped-size-prefix")
			}
			for n := 4; n <= 40; n += 4 {
				m := make([]byte, n)
				copy(m, []byte{0xff, 0xff, 0xff, 0xff})
				c.judge(wd, fmt.Sprintf("ffffffff followed by %d zero bytes", n-4), blk, m, prevBlk, prev, "wrapped-size-prefix")
				if n >= 8 {
					m2 := make([]byte, n)
					copy(m2[4:], []byte{0xff, 0xff, 0xff, 0xff})
					c.judge(wd, fmt.Sprintf("zero word, ffffffff, %d zero bytes", n-8), blk, m2, prevBlk, prev, "wrapped-size-prefix")
				}
			}
		}
		// the caller hands over a prevBlock that is not the predecessor (an older block, or none): the certificate is still judged
		// against the committee of the block's own height (worlds whose committee contract is keyed by the height)
		if !wd.mem.KeyedByRefTime && wi%3 == 0 {
			for _, pb := range []*spi.Blk{nil, {H: h - 2, Body: "older"}, {H: 0, Body: "genesis-like"}} {
				if pb != nil && h < 3 && pb.H == h-2 {
					continue
				}
				ph := uint64(1)
				if pb != nil {
					ph = pb.H + 1
				}
				s := base(0)
				s.Signers = c.pickSigners(ref.NewCommittee(wd.comm[ph]), 0) // a quorum of the committee of (prevBlock's height + 1)
				c.judge(wd, fmt.Sprintf("prevBlock is not the predecessor (%v): signers are a quorum of the committee of its successor height %d", pb, ph), blk, c.build(s, prev), pb, prev, "foreign-prev-block")
				c.judge(wd, fmt.Sprintf("prevBlock is not the predecessor (%v): genuine certificate", pb), blk, c.build(base(0), prev), pb, prev, "foreign-prev-block-genuine")
			}
		}
		// field mutations of a quorum certificate
		for k := 0; k < 14; k++ {
			s := base(0)
			what := ""
			switch k {
			case 0:
				s.Type = []protocol.MessageType{protocol.LEAN_HELIX_PREPARE, protocol.LEAN_HELIX_PREPREPARE, protocol.LEAN_HELIX_VIEW_CHANGE, 0}[c.rng.Intn(4)]
				what = "wrong message type, signatures genuine over it"
			case 1:
				s.Inst = uint64(spi.OtherInstanceId)
				what = "other instance"
			case 2:
				s.H = h + 1
				what = "height differs from the block's"
			case 3:
				s.Hash = spi.HashOf(&spi.Blk{H: h, Body: "another"})
				what = "hash of another block"
			case 4: // duplicate signer padding up to enough 'weight'
				s = base(1)
				if len(s.Signers) > 0 {
					for !false && len(s.Signers) < 12 {
						s.Signers = append(s.Signers, s.Signers[0])
						if len(s.Signers) > cm.N()+2 {
							break
						}
					}
				}
				s.SigMode = make([]int, len(s.Signers))
				what = "below quorum, padded with duplicates of a signer"
			case 5: // non-member padding with valid keys
				s = base(1)
				s.Signers = append(s.Signers, c.ids[12], c.ids[13])
				s.SigMode = make([]int, len(s.Signers))
				what = "below quorum, padded with outsiders holding valid keys"
			case 6:
				s.Signers = append(s.Signers, c.ids[12])
				s.SigMode = make([]int, len(s.Signers))
				what = "quorum plus one outsider"
			case 7:
				s.SigMode[c.rng.Intn(len(s.Signers))] = 1 + c.rng.Intn(4)
				what = "one signature not genuine"
			case 8:
				for i := range s.Signers {
					s.SigMode[i] = 3
				}
				what = "all signatures are genuine PREPARE signatures"
			case 9:
				s.SeedMode = 1 + c.rng.Intn(4)
				what = fmt.Sprintf("random seed signature mode %d", s.SeedMode)
			case 10:
				s = base(3)
				what = "signers hold at most f"
			case 11:
				s.Signers = nil
				what = "no signers"
			case 12:
				// seed derived from another previous proof than the one passed
				other := c.build(&proofSpec{Type: protocol.LEAN_HELIX_COMMIT, Inst: inst, H: h - 1, Hash: spi.HashOf(prevBlk), Signers: c.pickSigners(ref.NewCommittee(wd.comm[h-1]), 4), SigMode: make([]int, 16), SeedMode: 1}, nil)
				c.judge(wd, "seed derived from another previous proof", blk, c.build(s, other), prevBlk, prev, "mut12")
				continue
			case 13:
				c.judge(wd, "another block with a genuine certificate", &spi.Blk{H: h, Body: "not the certified one"}, c.build(s, prev), prevBlk, prev, "mut13")
				c.judge(wd, "nil block", nil, c.build(s, prev), prevBlk, prev, "mut13b")
				continue
			}
			c.judge(wd, what, blk, c.build(s, prev), prevBlk, prev, fmt.Sprintf("mut%d", k))
		}
		// byte-level: truncations, bit flips, length corruption, random bytes
		good := c.build(base(0), prev)
		for k := 0; k < run.Pick(12, 40); k++ {
			b := append([]byte{}, good...)
			what := ""
			switch c.rng.Intn(5) {
			case 0:
				b = b[:c.rng.Intn(len(b)+1)]
				what = "truncated"
			case 1:
				b[c.rng.Intn(len(b))] ^= byte(1 << uint(c.rng.Intn(8)))
				what = "bit flip"
			case 2:
				i := c.rng.Intn(len(b) - 3)
				b[i], b[i+1], b[i+2], b[i+3] = 0xff, 0xff, 0xff, byte(c.rng.Intn(256))
				what = "length field corrupted"
			case 3:
				b = make([]byte, c.rng.Intn(300))
				c.rng.Read(b)
				what = "random bytes"
			case 4:
				b = append(b, make([]byte, 1+c.rng.Intn(16))...)
				what = "trailing bytes"
			}
			c.judge(wd, what, blk, b, prevBlk, prev, "bytes-"+what)
		}
		if wi < 3 {
			c.samples = append(c.samples, map[string]interface{}{"committee": wd.desc, "height": h, "block": blk.String(), "cases": "5 boundary signer sets, 15 field mutations, byte-level mutations; both modes"})
		}
	}
	cov := map[string]interface{}{
		"evaluations":         c.evals,
		"distinct_nontrivial": len(c.classes),
		"rule":                "block proofs synthesised with the HMAC registry for height-dependent committees of 4..9 members (unit, small, zero, >2^53 and one-heavy weights): signer sets exactly at / just below quorum, just above / at f, everybody, a quorum of the previous height's committee; field mutations (type, instance, height, hash, duplicate padding, outsider padding, non-genuine signatures, PREPARE signatures, seed signature variants, foreign previous proof, other block, nil block); byte-level truncation / bit flips / length corruption / random bytes; every input judged in strict and soft mode against the reference certificate predicate (accepted and not reference => violation; panic => violation). distinct = (input class, mode, reference verdict, implementation verdict)",
		"samples":             c.samples,
		"accepted":            c.accepted,
		"rejected":            c.rejected,
		"reference_accepts_but_implementation_rejects_(not_a_C02_matter)": c.refAcceptImplReject,
		"violations_by_rule": c.byRule,
	}
	var inc []string
	if C02Extra != nil {
		fs, ev, i := C02Extra(run)
		c.findings = append(c.findings, fs...)
		inc = i
		for k, v := range ev {
			cov[k] = v
		}
	}
	run.WriteEvidence("exploration", cov, []string{"HMAC key manager as signature scheme", "reference predicate reads the proof with the generated reader (trusted) and counts weight in math/big"}, len(c.findings))
	fmt.Printf("C02 %s: evaluations=%d accepted=%d rejected=%d classes=%d refAcceptImplReject=%d\n", run.Tier, c.evals, c.accepted, c.rejected, len(c.classes), c.refAcceptImplReject)
	return run.Conclude(c.findings, inc)
}
