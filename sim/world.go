// Package sim is the deterministic multi-node scheduler: N real WorkerLoops
// driven synchronously through the verif hooks, a harness-owned network and
// virtual election timers, an adversary owning the Byzantine keys, and online
// monitors over the SPI event log.
package sim

import (
	"context"
	"fmt"
	"math/rand"
	"sort"
	"time"

	leanhelix "github.com/orbs-network/lean-helix-go"
	"github.com/orbs-network/lean-helix-go/services/interfaces"
	"github.com/orbs-network/lean-helix-go/services/logger"
	"github.com/orbs-network/lean-helix-go/services/storage"
	"github.com/orbs-network/lean-helix-go/spec/types/go/primitives"
	"github.com/orbs-network/lean-helix-go/state"

	"verif/ref"
	"verif/spi"
)

// CaseConfig is everything that defines a case besides the PRNG stream.
type CaseConfig struct {
	Universe      []string                                // every id that has a key
	Committees    map[uint64][]interfaces.CommitteeMember // per height 1..MaxH+1
	Byz           map[string]bool                         // Byzantine ids (static)
	Outsiders     map[string]bool                         // ids with keys that never run a node (adversary owned)
	MaxH          uint64                                  // heights decided in this case
	OtherInst     uint64                                  // instance id of the parallel instance that runs with the same member keys
	otherInstZero bool                                    // OtherInst == 0 was chosen on purpose (unset means the default, 8)
}

// OtherInstId: see OtherInst (scripted worlds leave it unset: 8).
func (c *CaseConfig) OtherInstId() uint64 {
	if c.OtherInst == 0 && !c.otherInstZero {
		return uint64(spi.OtherInstanceId)
	}
	return c.OtherInst
}

func (c *CaseConfig) Committee(h uint64) []interfaces.CommitteeMember {
	if m, ok := c.Committees[h]; ok {
		return m
	}
	// beyond the explored range: reuse the last one (nodes idle there)
	return c.Committees[c.MaxH+1]
}

type Flight struct {
	From    string
	To      string
	Raw     *interfaces.ConsensusRawMessage
	Msg     *ref.Msg // decoded; nil when undecodable
	Honest  bool     // emitted by a correct node's library code
	Emit    uint64   // emission index
	PostGST bool
}

// FakeES is the virtual election scheduler of one node.
type FakeES struct {
	node  *Node
	ch    chan *interfaces.ElectionTrigger
	H, V  uint64
	cb    func(h primitives.BlockHeight, v primitives.View, cb interfaces.OnElectionCallback)
	Armed bool
	ArmAt uint64 // virtual time of arming
	Base  uint64
	Regs  int
}

func (e *FakeES) RegisterOnElection(h primitives.BlockHeight, v primitives.View, cb func(h primitives.BlockHeight, v primitives.View, cb interfaces.OnElectionCallback)) {
	if e.Armed && e.cb != nil && e.H == uint64(h) && e.V == uint64(v) {
		return // same pair: the real trigger keeps the running timer
	}
	e.H, e.V, e.cb, e.Armed = uint64(h), uint64(v), cb, true
	e.ArmAt = e.node.w.Clock
	e.Regs++
	e.node.w.Log.Add(spi.Event{Node: e.node.Id, Kind: spi.EvRegister, H: uint64(h), V: uint64(v)})
}
func (e *FakeES) ElectionChannel() chan *interfaces.ElectionTrigger { return e.ch }
func (e *FakeES) CalcTimeout(v primitives.View) time.Duration {
	if v > 40 {
		v = 40
	}
	return time.Duration(e.Base<<uint(v)) * time.Millisecond
}

// MaxTimerView is the highest view whose virtual timeout (Base*2^view) the virtual clock can represent.
const MaxTimerView = 55

func (e *FakeES) Stop() {
	if e.Armed {
		e.node.w.Log.Add(spi.Event{Node: e.node.Id, Kind: spi.EvStop, H: e.H, V: e.V})
	}
	e.Armed, e.cb = false, nil
}

// Expiry in virtual time (saturating).
func (e *FakeES) Expiry() uint64 {
	v := e.V
	if v > MaxTimerView {
		v = MaxTimerView
	}
	return e.ArmAt + e.Base<<v
}

type Node struct {
	Id    string
	w     *World
	W     *leanhelix.WorkerLoop
	St    *state.State
	ES    *FakeES
	BU    *spi.BlockUtils
	Store *spi.RecStorage
	Mem   *spi.Membership
	Comm  *spi.Comm
	// main-loop mimic
	maxSync *uint64
	// the worker's two one-slot inboxes (sync, election): filled by the main-loop half of a step, emptied by the worker half
	pendSync    *pendingSync
	handSync    *pendingSync // dequeued by the worker, not yet acted upon (the main loop may handle a newer sync meanwhile)
	pendTrig    *interfaces.ElectionTrigger
	pendTrigHV  [2]uint64
	FailCommit  func(h uint64) bool // commit callback failure injection
	PanicCommit bool                // ... the injected failure is a panic of the consumer's callback instead of an error
	NoProofAt   map[uint64]bool     // heights the node entered by a sync that carried no proof of the previous block
	// observations
	Commits map[uint64]*CommitRec
	Panics  int
	Wedged  bool // the monitors found the node's storage locked for good: it is taken out of the schedule
}

type pendingSync struct {
	blk   *spi.Blk
	proof []byte
}

type CommitRec struct {
	Block *spi.Blk
	Proof []byte
	Seq   uint64
}

type StepRec struct {
	Kind string // deliver|drop|dup|timeout|sync|adv|gst
	Node string
	From string
	Info string
}

type World struct {
	Cfg              *CaseConfig
	Keys             *spi.Keys
	Log              *spi.Log
	Nodes            map[string]*Node
	Order            []string // correct node ids, sorted
	Pool             []*Flight
	Seen             []*Flight // every message ever put on the wire (honest and adversarial)
	Clock            uint64
	GST              bool
	inDelivery       bool // a node's message handler is running (midHandler may let its main loop act)
	Rng              *rand.Rand
	Mon              *Monitors
	Trace            []StepRec
	emit             uint64
	comms            map[uint64]*ref.Committee
	Canon            map[uint64]*CommitRec // first commit seen per height (for sync / prev proofs)
	KeepTrace        bool
	ReverseToLaggers bool
	Aborted          bool // a monitor found a node disabled for good: the case ends here (the violation is recorded)
	SplitHandoff     bool // main-loop and worker halves of syncs / elections may be separated by other steps
}

func (w *World) Comm(h uint64) *ref.Committee {
	c, ok := w.comms[h]
	if !ok {
		c = ref.NewCommittee(w.Cfg.Committee(h))
		w.comms[h] = c
	}
	return c
}

func (w *World) IsCorrect(id string) bool { _, ok := w.Nodes[id]; return ok }

func NewWorld(cfg *CaseConfig, rng *rand.Rand) *World {
	w := &World{Cfg: cfg, Keys: spi.NewKeys(cfg.Universe), Log: &spi.Log{}, Nodes: map[string]*Node{}, Rng: rng, comms: map[uint64]*ref.Committee{}, Canon: map[uint64]*CommitRec{}}
	w.Mon = NewMonitors(w)
	w.Log.Sink = w.Mon.OnEvent
	for _, id := range cfg.Universe {
		if cfg.Byz[id] || cfg.Outsiders[id] {
			continue
		}
		w.Order = append(w.Order, id)
	}
	sort.Strings(w.Order)
	for _, id := range w.Order {
		w.Nodes[id] = w.newNode(id)
	}
	return w
}

func (w *World) newNode(id string) *Node {
	n := &Node{Id: id, w: w, Commits: map[uint64]*CommitRec{}, NoProofAt: map[uint64]bool{}}
	n.ES = &FakeES{node: n, ch: make(chan *interfaces.ElectionTrigger), Base: 1}
	n.St = state.NewState()
	n.BU = &spi.BlockUtils{Node: id, Log: w.Log}
	n.Store = &spi.RecStorage{Storage: storage.NewInMemoryStorage(), Node: id, Log: w.Log}
	n.Mem = &spi.Membership{Me: id, Log: w.Log, Committee: w.Cfg.Committee, KeyedByRefTime: true}
	comm := &spi.Comm{Node: id, Log: w.Log, OnSend: func(to []string, m *interfaces.ConsensusRawMessage) { w.onSend(n, to, m) }}
	n.Comm = comm
	km := w.Keys.Signer(id)
	km.AfterVerify = func() { w.midHandler(n) }
	cfg := &interfaces.Config{
		InstanceId:              spi.InstanceId,
		Communication:           comm,
		Membership:              n.Mem,
		BlockUtils:              n.BU,
		KeyManager:              km,
		Storage:                 n.Store,
		OverrideElectionTrigger: n.ES,
	}
	lg := logger.NewLhLogger(cfg, n.St)
	n.W = leanhelix.NewWorkerLoop(n.St, cfg, lg, n.ES,
		func(ctx context.Context, b interfaces.Block, proof []byte) error {
			blk := spi.AsBlk(b)
			fail := n.FailCommit != nil && n.FailCommit(blk.H)
			w.Log.Add(spi.Event{Node: id, Kind: spi.EvCommit, H: blk.H, Hash: string(spi.HashOf(blk)), Block: blk, Proof: proof, Ok: !fail, CtxErr: ctx.Err() != nil})
			if fail {
				if n.PanicCommit {
					panic(spi.ConsumerPanic{What: fmt.Sprintf("commit callback of height %d", blk.H)})
				}
				return fmt.Errorf("injected commit failure")
			}
			return nil
		},
		func(ctx context.Context, h primitives.BlockHeight, prev interfaces.Block, canBeFirstLeader bool) {
			w.Log.Add(spi.Event{Node: id, Kind: spi.EvNewRound, H: uint64(h), Ok: canBeFirstLeader, Block: spi.AsBlk(prev)})
		})
	n.W.VerifObserveRecoveredPanics(func(r interface{}) { w.Mon.OnRecoveredPanic(n, r) })
	return n
}

func (w *World) onSend(n *Node, to []string, m *interfaces.ConsensusRawMessage) {
	dm, _ := ref.Decode(m)
	for _, t := range to {
		w.emit++
		f := &Flight{From: n.Id, To: t, Raw: m, Msg: dm, Honest: true, Emit: w.emit, PostGST: w.GST}
		w.Pool = append(w.Pool, f)
		w.Seen = append(w.Seen, f)
	}
}

// Inject puts an adversarial message on the wire.
func (w *World) Inject(from, to string, raw *interfaces.ConsensusRawMessage) *Flight {
	dm, _ := ref.Decode(raw)
	w.emit++
	f := &Flight{From: from, To: to, Raw: raw, Msg: dm, Honest: false, Emit: w.emit, PostGST: w.GST}
	w.Pool = append(w.Pool, f)
	w.Seen = append(w.Seen, f)
	return f
}

func (w *World) trace(kind, node, from, info string) {
	if w.KeepTrace {
		w.Trace = append(w.Trace, StepRec{kind, node, from, info})
	}
}

// guard runs f, converting a panic into a C12 observation.
func (w *World) guard(n *Node, what string, f func()) {
	defer func() {
		if r := recover(); r != nil {
			n.Panics++
			w.Log.Add(spi.Event{Node: n.Id, Kind: spi.EvPanic, Note: fmt.Sprintf("%s: %v", what, r)})
			w.Mon.OnPanic(n, what, r)
		}
	}()
	f()
}

// gc mimics the main loop's per-iteration GcOldContexts.
func (n *Node) gc() { n.St.GcOldContexts() }

// Start brings every correct node to height 1 (what Run + UpdateState(genesis) does).
func (w *World) Start() {
	for _, id := range w.Order {
		n := w.Nodes[id]
		w.SyncNode(n, nil, nil)
	}
}

// SyncNode mimics MainLoop's UpdateState arm followed by the worker's arm.
func (w *World) SyncNode(n *Node, b *spi.Blk, proof []byte) {
	n.gc()
	var bh uint64
	if b != nil {
		bh = b.H
	}
	if n.maxSync != nil && *n.maxSync >= bh {
		return
	}
	hv := state.NewHeightView(primitives.BlockHeight(bh+1), 0)
	n.St.Contexts.CancelOlderThan(hv)
	if _, err := n.St.Contexts.For(hv); err != nil {
		return
	}
	x := bh
	n.maxSync = &x
	// sendUpdateMessageNonBlocking: a full slot is emptied first, the newest sync wins
	n.pendSync = &pendingSync{b, proof}
	w.trace("sync-main", n.Id, "", fmt.Sprintf("h=%d", bh))
	if w.SplitHandoff && w.Rng.Intn(3) == 0 {
		return // the worker half happens at some later step
	}
	w.WorkerTakeSync(n)
}

// WorkerTakeSync is the worker half of a node sync: the worker's select picked the update-state inbox.
func (w *World) WorkerTakeSync(n *Node) {
	if n.Wedged {
		return
	}
	ps := n.handSync
	if ps != nil {
		n.handSync = nil
	} else {
		ps = n.pendSync
		if ps == nil {
			return
		}
		n.pendSync = nil
		if w.SplitHandoff && w.Rng.Intn(3) == 0 {
			n.handSync = ps // dequeued; acting on it is a later step
			w.trace("sync-dequeued", n.Id, "", "")
			return
		}
	}
	var blk interfaces.Block
	bh := uint64(0)
	if ps.blk != nil {
		blk, bh = ps.blk, ps.blk.H
	}
	pre := w.Mon.PreStep(n)
	mark := w.Log.Len()
	w.trace("sync", n.Id, "", fmt.Sprintf("h=%d", bh))
	w.guard(n, "sync", func() { n.W.VerifUpdateState(blk, ps.proof) })
	for _, e := range w.Log.Ev[mark:] {
		if e.Node == n.Id && e.Kind == spi.EvNewRound && e.H == bh+1 {
			// the round was started on this sync: its random seed derives from the proof that came with it
			if bh >= 1 && len(ps.proof) == 0 {
				n.NoProofAt[bh+1] = true
			} else {
				delete(n.NoProofAt, bh+1)
			}
		}
	}
	w.Mon.PostSync(n, pre, bh, w.Log.Ev[mark:])
}

// WorkerTakeTrigger is the worker half of an election: the worker's select picked the election inbox.
func (w *World) WorkerTakeTrigger(n *Node) {
	trig := n.pendTrig
	if trig == nil || n.Wedged {
		return
	}
	n.pendTrig = nil
	h, v := n.pendTrigHV[0], n.pendTrigHV[1]
	pre := w.Mon.PreStep(n)
	mark := w.Log.Len()
	w.trace("timeout", n.Id, "", fmt.Sprintf("h=%d v=%d", h, v))
	w.guard(n, "election", func() { n.W.VerifElection(trig) })
	w.Mon.PostTimeout(n, pre, h, v, w.Log.Ev[mark:])
}

// DrainPending runs every pending worker half (in a PRNG-chosen order per node).
func (w *World) DrainPending() {
	for _, id := range w.Order {
		n := w.Nodes[id]
		split := w.SplitHandoff
		w.SplitHandoff = false
		if w.Rng.Intn(2) == 0 {
			w.WorkerTakeSync(n)
			w.WorkerTakeSync(n)
			w.WorkerTakeTrigger(n)
		} else {
			w.WorkerTakeTrigger(n)
			w.WorkerTakeSync(n)
			w.WorkerTakeSync(n)
		}
		w.SplitHandoff = split
	}
}

// midHandler runs between two signature verifications inside one of node n's message handlers: now and then (split hand-off
// worlds only) the node's main loop handles the expiry of the armed election timer at that very moment — it cancels the contexts
// of the view and queues the trigger for the worker, which is still inside the handler.
func (w *World) midHandler(n *Node) {
	if !w.SplitHandoff || !w.inDelivery || n.pendTrig != nil || !n.ES.Armed || n.ES.cb == nil || w.Rng.Intn(24) != 0 {
		return
	}
	h, v, cb := n.ES.H, n.ES.V, n.ES.cb
	target := state.NewHeightView(primitives.BlockHeight(h), primitives.View(v+1))
	n.ES.Armed = false
	n.St.Contexts.CancelOlderThan(target)
	if _, err := n.St.Contexts.For(target); err != nil {
		return
	}
	n.pendTrig = &interfaces.ElectionTrigger{Hv: state.NewHeightView(primitives.BlockHeight(h), primitives.View(v)), MoveToNextLeader: func() { cb(primitives.BlockHeight(h), primitives.View(v), nil) }}
	n.pendTrigHV = [2]uint64{h, v}
	w.Mon.Stats["election timers handled by the main loop in the middle of a message handler"]++
	w.trace("timeout-main-mid-handler", n.Id, "", fmt.Sprintf("h=%d v=%d", h, v))
}

// Timeout fires the node's armed election timer (main-loop mimic + worker arm).
func (w *World) Timeout(n *Node) bool {
	n.gc()
	if !n.ES.Armed || n.ES.cb == nil {
		return false
	}
	h, v, cb := n.ES.H, n.ES.V, n.ES.cb
	n.ES.Armed = false // one-shot
	target := state.NewHeightView(primitives.BlockHeight(h), primitives.View(v+1))
	n.St.Contexts.CancelOlderThan(target)
	if _, err := n.St.Contexts.For(target); err != nil {
		return false
	}
	trig := &interfaces.ElectionTrigger{Hv: state.NewHeightView(primitives.BlockHeight(h), primitives.View(v)), MoveToNextLeader: func() { cb(primitives.BlockHeight(h), primitives.View(v), nil) }}
	// sendElectionMessageNonBlocking: a full slot is emptied first, the newest trigger wins
	n.pendTrig, n.pendTrigHV = trig, [2]uint64{h, v}
	if w.SplitHandoff && w.Rng.Intn(3) == 0 {
		w.trace("timeout-main", n.Id, "", fmt.Sprintf("h=%d v=%d", h, v))
		return true // the worker half happens at some later step
	}
	w.WorkerTakeTrigger(n)
	return true
}

// Deliver hands one flight to its destination node and lets the monitors judge it.
func (w *World) Deliver(f *Flight) {
	n, ok := w.Nodes[f.To]
	if !ok || n.Wedged {
		return // destination is Byzantine / outsider: adversary knowledge only
	}
	n.gc()
	d := w.Mon.PreDelivery(n, f)
	mark := w.Log.Len()
	if w.KeepTrace {
		w.trace("deliver", n.Id, f.From, Describe(f))
	}
	before := n.Panics
	w.inDelivery = true
	w.guard(n, "deliver", func() { n.W.VerifDeliver(f.Raw) })
	w.inDelivery = false
	w.Mon.PostDelivery(d, w.Log.Ev[mark:], n.Panics > before)
}

func Describe(f *Flight) string {
	if f.Msg == nil {
		return fmt.Sprintf("undecodable %d bytes honest=%v", len(f.Raw.Content), f.Honest)
	}
	m := f.Msg
	return fmt.Sprintf("%s(hdr=%v) inst=%d h=%d v=%d hash=%x sender=%s honest=%v", m.Env, m.Type, m.Inst, m.H, m.V, short(m.Hash), m.Sender.Id, f.Honest)
}

func short(b []byte) []byte {
	if len(b) > 4 {
		return b[:4]
	}
	return b
}

// TakeFlight removes pool[i].
func (w *World) TakeFlight(i int) *Flight {
	f := w.Pool[i]
	w.Pool = append(w.Pool[:i], w.Pool[i+1:]...)
	return f
}

// MinHeight / MaxHeight over correct nodes.
func (w *World) Heights() (lo, hi uint64) {
	lo = ^uint64(0)
	for _, id := range w.Order {
		h := uint64(w.Nodes[id].St.Height())
		if h < lo {
			lo = h
		}
		if h > hi {
			hi = h
		}
	}
	return
}
