package sim

import (
	"fmt"
	"math/rand"
	"sort"

	"github.com/orbs-network/lean-helix-go/services/interfaces"
	"github.com/orbs-network/lean-helix-go/spec/types/go/primitives"
	"github.com/orbs-network/lean-helix-go/spec/types/go/protocol"

	"verif/ref"
	"verif/spi"
)

// Adversary owns the Byzantine member keys, the outsider keys and the network.
// It sees all traffic and all node states (worst case), can sign only with its
// own keys, and can replay any bytes or signatures it has seen.
type Adversary struct {
	w         *World
	p         *Profile
	r         *rand.Rand
	byz       []string
	outs      []string
	own       map[string]bool
	seq       int
	done      map[string]bool
	Fired     map[string]int
	strat     []wstrat
	total     int
	allowBare bool // may send standalone PREPREPAREs for views above 0 (the recorded C07 known finding)
}

type wstrat struct {
	name string
	w    int
	f    func(h uint64) bool
}

func NewAdversary(w *World, p *Profile) *Adversary {
	a := &Adversary{w: w, p: p, r: w.Rng, own: map[string]bool{}, done: map[string]bool{}, Fired: map[string]int{}}
	for id := range w.Cfg.Byz {
		a.byz = append(a.byz, id)
		a.own[id] = true
	}
	sort.Strings(a.byz)
	for id := range w.Cfg.Outsiders {
		a.outs = append(a.outs, id)
		a.own[id] = true
	}
	sort.Strings(a.outs)
	a.strat = []wstrat{
		{"equivocate", 6, a.equivocate},
		{"support", 14, a.support},
		{"barePP", 5, a.barePP},
		{"forgedNV", 8, a.forgedNV},
		{"twistedNV", 8, a.twistedNV},
		{"mutate", 25, a.mutate},
		{"outsider", 5, a.outsider},
		{"vcGames", 8, a.vcGames},
		{"garbage", 2, a.garbage},
		{"hugeView", 2, a.hugeView},
		{"badBlock", 4, a.badBlock},
		{"honestLike", 6, a.honestLike},
		{"crossInstance", 5, a.crossInstance},
		{"corruptNested", 3, a.corruptNested},
		{"reblock", 6, a.reblock},
		{"wrapLen", 0, a.wrapLen},
		{"goodNV", 4, a.goodNV},
		{"viewFlood", 0, a.viewFlood},
	}
	for i := range a.strat {
		if p.AdvWeights != nil {
			if x, ok := p.AdvWeights[a.strat[i].name]; ok {
				a.strat[i].w = x
			}
		}
		a.total += a.strat[i].w
		if a.strat[i].name == "barePP" && a.strat[i].w > 0 {
			a.allowBare = true
		}
	}
	return a
}

func (a *Adversary) Active() bool {
	return a.p.Adversary && (len(a.byz) > 0 || len(a.outs) > 0) && a.total > 0
}

// Step runs one adversary action at a height some correct node is deciding.
func (a *Adversary) Step() string {
	w := a.w
	var hs []uint64
	for _, id := range w.Order {
		h := uint64(w.Nodes[id].St.Height())
		if h >= 1 && h <= w.Cfg.MaxH {
			hs = append(hs, h)
		}
	}
	if len(hs) == 0 {
		return "idle"
	}
	h := hs[a.r.Intn(len(hs))]
	for try := 0; try < 4; try++ {
		x := a.r.Intn(a.total)
		for i := range a.strat {
			if x < a.strat[i].w {
				if a.strat[i].f(h) {
					a.Fired[a.strat[i].name]++
					w.Mon.Stats["adv "+a.strat[i].name]++
					return a.strat[i].name
				}
				break
			}
			x -= a.strat[i].w
		}
	}
	return "none"
}

// ---------------------------------------------------------------- helpers

func (a *Adversary) at(h uint64) []*Node {
	var out []*Node
	for _, id := range a.w.Order {
		n := a.w.Nodes[id]
		if uint64(n.St.Height()) == h {
			out = append(out, n)
		}
	}
	return out
}

// below: correct nodes still deciding a lower height
func (a *Adversary) below(h uint64) []*Node {
	var out []*Node
	for _, id := range a.w.Order {
		n := a.w.Nodes[id]
		if uint64(n.St.Height()) < h {
			out = append(out, n)
		}
	}
	return out
}

func (a *Adversary) byzMembers(h uint64) []string {
	c := a.w.Comm(h)
	var out []string
	for _, b := range a.byz {
		if c.Has(b) {
			out = append(out, b)
		}
	}
	return out
}

func (a *Adversary) garbageSig() []byte {
	b := make([]byte, 32)
	a.r.Read(b)
	return b
}

// sign: genuine for own ids, garbage otherwise.
func (a *Adversary) sign(id string, h uint64, raw []byte) []byte {
	if a.own[id] {
		return a.w.Keys.SignCM(id, h, raw)
	}
	return a.garbageSig()
}

func (a *Adversary) share(id string, h uint64) []byte {
	if a.own[id] {
		return a.w.Keys.Share(id, h, a.w.SeedBytes(h))
	}
	// replay a genuine share of that node at this height if one was seen
	for _, f := range a.w.Seen {
		if f.Msg != nil && f.Msg.Env == ref.EnvC && f.Msg.H == h && f.Msg.Sender.Id == id && f.Honest {
			return f.Msg.Share
		}
	}
	return a.garbageSig()
}

func (a *Adversary) newBlock(h uint64, bad bool) *spi.Blk {
	a.seq++
	return &spi.Blk{H: h, Body: fmt.Sprintf("evil-%d", a.seq), Bad: bad}
}

// send delivers now (direct) or leaves the message to the scheduler.
func (a *Adversary) send(from, to string, raw *interfaces.ConsensusRawMessage) {
	if raw == nil || !a.w.IsCorrect(to) {
		return
	}
	if !a.allowBare {
		// workloads of the other properties leave the recorded C07 finding out: no authentic standalone PREPREPARE for a view above 0
		if m, ok := ref.Decode(raw); ok && m.Env == ref.EnvPP && m.V > 0 && a.own[m.Sender.Id] {
			a.w.Mon.Stats["adv bare preprepare withheld"]++
			return
		}
	}
	f := a.w.Inject(from, to, raw)
	if a.r.Intn(10) < 6 {
		for i := len(a.w.Pool) - 1; i >= 0; i-- {
			if a.w.Pool[i] == f {
				a.w.TakeFlight(i)
				break
			}
		}
		a.w.Deliver(f)
		a.w.Mon.Stats["delivered adversarial"]++
	}
}

func (a *Adversary) sendSome(from string, nodes []*Node, raw *interfaces.ConsensusRawMessage, pct int) {
	for _, n := range nodes {
		if a.r.Intn(100) < pct {
			a.send(from, n.Id, raw)
		}
	}
}

func (a *Adversary) mkRefMsg(env ref.Env, typ ref.MT, signer string, inst, h, v uint64, hash []byte, blk *spi.Blk) *interfaces.ConsensusRawMessage {
	hdr := &ref.Ref{Type: typ, Inst: inst, H: h, V: v, Hash: hash}
	if a.own[signer] && a.r.Intn(10) == 0 {
		// the member's own, genuinely signed header in a non-canonical encoding (garbage in the alignment bytes, or bytes after
		// the last field): every field reads the same, the signature is over these bytes
		hdr.Pad = 1 + a.r.Intn(2)
		a.w.Mon.Stats["adv genuinely signed headers in a non-canonical encoding"]++
	}
	sg := ref.Sig{Id: signer, Sig: a.sign(signer, h, hdr.Bytes())}
	var share []byte
	if env == ref.EnvC {
		share = a.share(signer, h)
	}
	var b interfaces.Block
	if blk != nil {
		b = blk
	}
	return ref.RawBlockRefMsg(env, hdr, sg, share, b)
}

func (a *Adversary) mkVote(signer string, inst, h, v uint64, proof *ref.Proof) *ref.Vote {
	vt := &ref.Vote{Type: ref.VC, Inst: inst, H: h, V: v, Proof: proof}
	vt.Sender = ref.Sig{Id: signer, Sig: a.sign(signer, h, vt.HeaderBytes())}
	return vt
}

func (a *Adversary) mkNV(leader string, h, v uint64, votes []*ref.Vote, propHash []byte, blk *spi.Blk, embView uint64) *interfaces.ConsensusRawMessage {
	inst := uint64(spi.InstanceId)
	emb := &ref.Ref{Type: ref.PP, Inst: inst, H: h, V: embView, Hash: propHash}
	embSig := &ref.Sig{Id: leader, Sig: a.sign(leader, h, emb.Bytes())}
	sg := ref.Sig{Id: leader, Sig: a.sign(leader, h, ref.NVHeaderBytes(ref.NV, inst, h, v, votes))}
	var b interfaces.Block
	if blk != nil {
		b = blk
	}
	return ref.RawNewViewMsg(ref.NV, inst, h, v, votes, sg, emb, embSig, b)
}

// views the correct nodes at height h are in, plus one
func (a *Adversary) views(h uint64) []uint64 {
	set := map[uint64]bool{}
	for _, n := range a.at(h) {
		v := uint64(n.St.View())
		set[v] = true
		set[v+1] = true
	}
	var out []uint64
	for v := range set {
		out = append(out, v)
	}
	sort.Slice(out, func(i, j int) bool { return out[i] < out[j] })
	if len(out) == 0 {
		out = []uint64{0, 1} // nobody is at that height any more (an earlier action of this step moved them on)
	}
	return out
}

// byzLedView: a view (among candidates) led by a Byzantine member.
func (a *Adversary) byzLedView(h uint64, minView uint64) (uint64, string, bool) {
	c := a.w.Comm(h)
	var cands []uint64
	for _, v := range a.views(h) {
		if v >= minView && a.w.Cfg.Byz[c.Leader(v)] {
			cands = append(cands, v)
		}
	}
	if len(cands) == 0 {
		return 0, "", false
	}
	v := cands[a.r.Intn(len(cands))]
	return v, c.Leader(v), true
}

// proposals seen at height h: distinct (v, hash, block)
type prop struct {
	v    uint64
	hash string
	blk  *spi.Blk
}

func (a *Adversary) proposals(h uint64) []prop {
	seen := map[string]bool{}
	var out []prop
	for i := len(a.w.Seen) - 1; i >= 0 && len(out) < 12; i-- {
		m := a.w.Seen[i].Msg
		if m == nil || m.H != h || (m.Env != ref.EnvPP && m.Env != ref.EnvNV) || len(m.Hash) == 0 {
			continue
		}
		k := fmt.Sprintf("%d|%s", m.V, m.Hash)
		if seen[k] {
			continue
		}
		seen[k] = true
		out = append(out, prop{m.V, string(m.Hash), m.Block})
	}
	return out
}

// ---------------------------------------------------------------- strategies

// equivocate: a Byzantine leader sends two proposals for one view to disjoint subsets.
func (a *Adversary) equivocate(h uint64) bool {
	v, leader, ok := a.byzLedView(h, 0)
	if !ok || v != 0 && a.r.Intn(2) == 0 {
		return false
	}
	k := fmt.Sprintf("eq|%d|%d", h, v)
	if a.done[k] {
		return false
	}
	a.done[k] = true
	A, B := a.newBlock(h, false), a.newBlock(h, false)
	inst := uint64(spi.InstanceId)
	ma := a.mkRefMsg(ref.EnvPP, ref.PP, leader, inst, h, v, spi.HashOf(A), A)
	mb := a.mkRefMsg(ref.EnvPP, ref.PP, leader, inst, h, v, spi.HashOf(B), B)
	for _, n := range a.at(h) {
		if a.r.Intn(2) == 0 {
			a.send(leader, n.Id, ma)
		} else {
			a.send(leader, n.Id, mb)
		}
	}
	return true
}

// support: Byzantine members PREPARE and COMMIT every proposal they have seen, selectively.
func (a *Adversary) support(h uint64) bool {
	props := a.proposals(h)
	bm := a.byzMembers(h)
	if len(props) == 0 || len(bm) == 0 {
		return false
	}
	c := a.w.Comm(h)
	p := props[a.r.Intn(len(props))]
	inst := uint64(spi.InstanceId)
	did := false
	targets := a.at(h)
	if a.r.Intn(4) == 0 { // also nodes that lag behind: the messages sit in their future cache
		targets = append(targets, a.below(h)...)
		if a.r.Intn(2) == 0 {
			inst = a.otherInst()
		}
	}
	if a.r.Intn(5) == 0 {
		// COMMITs / PREPAREs in the name of correct members: garbage signature, but the member's genuine random-seed share
		// (replayed from any COMMIT of that member at this height — the share does not depend on the block)
		var honest []string
		for _, m := range c.Members {
			if id := string(m.Id); a.w.IsCorrect(id) {
				honest = append(honest, id)
			}
		}
		for _, n := range targets {
			for _, hid := range honest {
				if hid == n.Id || a.r.Intn(2) == 0 {
					continue
				}
				env, typ := ref.EnvC, ref.C
				if a.r.Intn(3) == 0 {
					env, typ = ref.EnvP, ref.P
				}
				a.w.Mon.Stats["adv support in the name of a correct member"]++
				a.send(bm[0], n.Id, a.mkRefMsg(env, typ, hid, inst, h, p.v, []byte(p.hash), nil))
				did = true
			}
		}
		// ... followed by a genuine COMMIT of a Byzantine member, which makes the receiver count what it holds
		for _, n := range targets {
			a.send(bm[0], n.Id, a.mkRefMsg(ref.EnvC, ref.C, bm[0], inst, h, p.v, []byte(p.hash), nil))
		}
		return true
	}
	for _, b := range bm {
		for _, n := range targets {
			k := fmt.Sprintf("sup|%s|%s|%d|%d|%s|%d", b, n.Id, h, p.v, p.hash, inst)
			if a.done[k] || a.r.Intn(3) == 0 {
				continue
			}
			a.done[k] = true
			did = true
			if c.Leader(p.v) != b {
				a.send(b, n.Id, a.mkRefMsg(ref.EnvP, ref.P, b, inst, h, p.v, []byte(p.hash), nil))
			}
			if a.r.Intn(2) == 0 {
				a.send(b, n.Id, a.mkRefMsg(ref.EnvC, ref.C, b, inst, h, p.v, []byte(p.hash), nil))
			}
		}
	}
	return did
}

// reblock: blocks travel unsigned next to the signed content. Take a PREPREPARE / NEW_VIEW seen on the wire (of anybody)
// and send its exact content with another block attached: the block that really hashes to the proposed hash (repairing a
// proposal whose sender attached a wrong one), some other known block, a fresh one, or none.
func (a *Adversary) reblock(h uint64) bool {
	w := a.w
	var cands []*Flight
	for i := len(w.Seen) - 1; i >= 0 && len(cands) < 10; i-- {
		f := w.Seen[i]
		if f.Msg != nil && f.Msg.H == h && (f.Msg.Env == ref.EnvPP || f.Msg.Env == ref.EnvNV) && len(f.Msg.Hash) > 0 {
			cands = append(cands, f)
		}
	}
	nodes := a.at(h)
	if len(cands) == 0 || len(nodes) == 0 {
		return false
	}
	src := cands[a.r.Intn(len(cands))]
	var late *Node
	if a.r.Intn(2) == 0 {
		// aimed at a node that has not received the proposal of the view it is in (while the others may be far ahead in it)
		for _, n := range nodes {
			v := uint64(n.St.View())
			if _, ok := n.Store.GetPreprepareMessage(primitives.BlockHeight(h), primitives.View(v)); ok {
				continue
			}
			for _, f := range cands {
				if f.Msg.V == v {
					src, late = f, n
				}
			}
		}
	}
	var known []*spi.Blk
	var fit *spi.Blk
	for i := len(w.Seen) - 1; i >= 0 && len(known) < 30; i-- {
		if b := w.Seen[i].Msg; b != nil && b.Block != nil && b.H == h {
			known = append(known, b.Block)
			if fit == nil && string(spi.HashOf(b.Block)) == string(src.Msg.Hash) {
				fit = b.Block
			}
		}
	}
	var blk interfaces.Block
	mode := a.r.Intn(4)
	srcFits := src.Msg.Block != nil && string(spi.HashOf(src.Msg.Block)) == string(src.Msg.Hash)
	if !srcFits && fit != nil {
		mode = 0 // the interesting repair: always take it
	} else if late != nil {
		mode = 1 + a.r.Intn(2)
	}
	switch mode {
	case 0:
		if fit == nil {
			return false
		}
		blk = fit
	case 1:
		if len(known) == 0 {
			return false
		}
		blk = known[a.r.Intn(len(known))]
	case 2:
		blk = a.newBlock(h, false)
	case 3:
		blk = nil
	}
	raw := &interfaces.ConsensusRawMessage{Content: src.Raw.Content, Block: blk}
	w.Mon.Stats[fmt.Sprintf("adv reblock mode %d", mode)]++
	if late != nil && mode != 0 {
		w.Mon.Stats["adv reblock aimed at a node without the proposal"]++
		a.send(src.From, late.Id, raw)
		return true
	}
	for _, n := range nodes {
		if mode == 0 || a.r.Intn(2) == 0 {
			a.send(src.From, n.Id, raw)
		}
	}
	return true
}

// barePP: standalone PREPREPARE for a view above 0 from its Byzantine leader.
func (a *Adversary) barePP(h uint64) bool {
	v, leader, ok := a.byzLedView(h, 1)
	if !ok {
		return false
	}
	E := a.newBlock(h, false)
	m := a.mkRefMsg(ref.EnvPP, ref.PP, leader, uint64(spi.InstanceId), h, v, spi.HashOf(E), E)
	a.sendSome(leader, a.at(h), m, 80)
	return true
}

// badBlock: a Byzantine leader proposes a block every correct validator rejects.
func (a *Adversary) badBlock(h uint64) bool {
	v, leader, ok := a.byzLedView(h, 0)
	if !ok {
		return false
	}
	E := a.newBlock(h, true)
	switch a.r.Intn(4) {
	case 0: // a good-looking block of another height: a fresh one of a later height, or the block already committed one height below
		E = a.newBlock(h+1+uint64(a.r.Intn(2)), false)
		if c, ok := a.w.Canon[h-1]; ok && h > 1 && a.r.Intn(2) == 0 {
			E = c.Block
			a.w.Mon.Stats["adv committed block of the previous height proposed again"]++
		}
	case 1: // a block on which the consumers' validators crash instead of answering
		E.Body = spi.PanicBody + "-" + E.Body
		a.w.Mon.Stats["adv blocks that crash the validator"]++
	}
	inst := uint64(spi.InstanceId)
	if v == 0 || a.r.Intn(2) == 0 {
		a.sendSome(leader, a.at(h), a.mkRefMsg(ref.EnvPP, ref.PP, leader, inst, h, v, spi.HashOf(E), E), 90)
	} else {
		votes := a.collectVotes(h, v, leader)
		a.sendSome(leader, a.at(h), a.mkNV(leader, h, v, votes, spi.HashOf(E), E, v), 90)
	}
	return true
}

// genuine votes addressed to a Byzantine leader, plus the Byzantine members' own
func (a *Adversary) collectVotes(h, v uint64, leader string) []*ref.Vote {
	byId := map[string]*ref.Vote{}
	for _, f := range a.w.Seen {
		m := f.Msg
		if m == nil || m.Env != ref.EnvVC || m.H != h || m.V != v || !f.Honest || f.To != leader {
			continue
		}
		byId[m.Sender.Id] = m.Vote.KeepRaw()
	}
	inst := uint64(spi.InstanceId)
	for _, b := range a.byzMembers(h) {
		if _, ok := byId[b]; !ok {
			byId[b] = a.mkVote(b, inst, h, v, nil)
		}
	}
	var ids []string
	for id := range byId {
		ids = append(ids, id)
	}
	sort.Strings(ids)
	var out []*ref.Vote
	for _, id := range ids {
		out = append(out, byId[id])
	}
	return out
}

func voteIds(votes []*ref.Vote) []string {
	var ids []string
	for _, v := range votes {
		ids = append(ids, v.Sender.Id)
	}
	return ids
}

// forgedNV: NEW_VIEW from the Byzantine leader of a view with a forged vote set.
func (a *Adversary) forgedNV(h uint64) bool {
	v, leader, ok := a.byzLedView(h, 1)
	if !ok {
		return false
	}
	c := a.w.Comm(h)
	inst := uint64(spi.InstanceId)
	votes := a.collectVotes(h, v, leader)
	have := map[string]bool{}
	for _, id := range voteIds(votes) {
		have[id] = true
	}
	variant := a.r.Intn(11)
	if variant == 9 {
		// the genuine (and the Byzantine members' own) votes already weigh a quorum; one more vote follows them — a second vote
		// of the leader — carrying a forged proof for a block nobody validated, which the NEW_VIEW proposes
		if !c.IsQuorum(voteIds(votes)) {
			return false
		}
		E := a.newBlock(h, true)
		var extra *ref.Vote
		switch a.r.Intn(4) {
		case 0:
			extra = a.mkVote(leader, inst, h, v, a.forgeProof(h, v-1, E))
		case 1:
			extra = a.mkVote(leader, inst, h, v, a.sigLessProof(h, v-1, E))
		default:
			// the leader's genuine vote of the parallel instance (same keys) for this height and view, carrying that instance's
			// genuine prepared certificate for the block: every signature in it verifies
			oi := a.otherInst()
			pp := &ref.Ref{Type: ref.PP, Inst: oi, H: h, V: v - 1, Hash: spi.HashOf(E)}
			pr := &ref.Ref{Type: ref.P, Inst: oi, H: h, V: v - 1, Hash: spi.HashOf(E)}
			pl := c.Leader(v - 1)
			op := &ref.Proof{PPRef: pp, PRef: pr, PPSender: &ref.Sig{Id: pl, Sig: a.signOther(pl, h, pp.Bytes())}}
			ids := []string{pl}
			for _, mm := range c.Members {
				id := string(mm.Id)
				if id == pl {
					continue
				}
				op.PSenders = append(op.PSenders, ref.Sig{Id: id, Sig: a.signOther(id, h, pr.Bytes())})
				ids = append(ids, id)
				if c.IsQuorum(ids) {
					break
				}
			}
			extra = &ref.Vote{Type: ref.VC, Inst: oi, H: h, V: v, Proof: op}
			extra.Sender = ref.Sig{Id: leader, Sig: a.signOther(leader, h, extra.HeaderBytes())}
		}
		votes = append(votes, extra)
		a.sendSome(leader, a.at(h), a.mkNV(leader, h, v, votes, spi.HashOf(E), E, v), 90)
		a.w.Mon.Stats["adv NEW_VIEW with a surplus vote behind a quorum of votes"]++
		return true
	}
	if variant == 10 {
		// genuine votes the same member collected one rotation earlier (view v-n), embedded as they are in its NEW_VIEW for v
		n := uint64(c.N())
		if v < n {
			return false
		}
		old := a.collectVotes(h, v-n, leader)
		if !c.IsQuorum(voteIds(old)) {
			return false
		}
		E := a.newBlock(h, false)
		a.sendSome(leader, a.at(h), a.mkNV(leader, h, v, old, spi.HashOf(E), E, v), 90)
		a.w.Mon.Stats["adv NEW_VIEW built from the votes of one rotation earlier"]++
		return true
	}
	if variant == 8 {
		// exactly one forged vote, in the name of the node the NEW_VIEW is sent to (a vote that node never cast), preferably
		// one whose weight completes the quorum
		var cands, completing []*Node
		for _, n := range a.at(h) {
			if have[n.Id] || !c.Has(n.Id) {
				continue
			}
			cands = append(cands, n)
			if c.IsQuorum(append(voteIds(votes), n.Id)) && !c.IsQuorum(voteIds(votes)) {
				completing = append(completing, n)
			}
		}
		if len(completing) > 0 {
			cands = completing
		}
		if len(cands) == 0 {
			return false
		}
		t := cands[a.r.Intn(len(cands))]
		var vt *ref.Vote
		if a.r.Intn(2) == 0 {
			vt = a.mkVote(t.Id, inst, h, v, nil)
		} else {
			vt = &ref.Vote{Type: ref.VC, Inst: inst, H: h, V: v}
			vt.Sender = ref.Sig{Id: t.Id, Sig: a.w.Keys.SignCM(leader, h, vt.HeaderBytes())}
		}
		votes = append(votes, vt)
		E := a.newBlock(h, false)
		a.send(leader, t.Id, a.mkNV(leader, h, v, votes, spi.HashOf(E), E, v))
		a.w.Mon.Stats["adv NEW_VIEW with one forged vote in the receiver's own name"]++
		return true
	}
	// fill up to quorum with forged votes
	for _, m := range c.Members {
		id := string(m.Id)
		if c.IsQuorum(voteIds(votes)) && variant != 3 {
			break
		}
		if have[id] {
			continue
		}
		var vt *ref.Vote
		switch variant {
		case 0, 5, 6: // unsigned / garbage signature under the honest id
			vt = a.mkVote(id, inst, h, v, nil)
		case 1: // re-signed by the leader's key under the honest id
			vt = &ref.Vote{Type: ref.VC, Inst: inst, H: h, V: v}
			vt.Sender = ref.Sig{Id: id, Sig: a.w.Keys.SignCM(leader, h, vt.HeaderBytes())}
		case 2: // replay the node's genuine vote of another view with the view field rewritten
			vt = a.replayVote(id, h, v)
			if vt == nil {
				vt = a.mkVote(id, inst, h, v, nil)
			}
		case 3: // duplicates of the leader's own vote
			vt = a.mkVote(leader, inst, h, v, nil)
		case 7: // the member's genuine vote of the OTHER instance (same keys) for this height and view
			vt = &ref.Vote{Type: ref.VC, Inst: a.otherInst(), H: h, V: v}
			vt.Sender = ref.Sig{Id: id, Sig: a.signOther(id, h, vt.HeaderBytes())}
		case 4: // outsider votes with valid keys
			if len(a.outs) == 0 {
				return false
			}
			vt = a.mkVote(a.outs[a.r.Intn(len(a.outs))], inst, h, v, nil)
		}
		votes = append(votes, vt)
		have[id] = true
		if variant == 3 && len(votes) > c.N()+1 {
			break
		}
	}
	E := a.newBlock(h, false)
	if variant == 5 { // forged prepared proof for the evil block inside the leader's own vote
		for i, vt := range votes {
			if vt.Sender.Id == leader {
				if a.r.Intn(3) == 0 {
					votes[i] = a.mkVote(leader, inst, h, v, a.sigLessProof(h, v-1, E))
				} else {
					votes[i] = a.mkVote(leader, inst, h, v, a.forgeProof(h, v-1, E))
				}
			}
		}
	}
	m := a.mkNV(leader, h, v, votes, spi.HashOf(E), E, v)
	if variant != 5 && a.r.Intn(2) == 0 {
		// when a genuine vote carries a proof, re-propose its block as a correct leader would: the forged votes are the only flaw
		var lockHash []byte
		var lockBlk *spi.Blk
		best := int64(-1)
		for _, f := range a.w.Seen {
			fm := f.Msg
			if fm == nil || fm.Env != ref.EnvVC || fm.H != h || fm.V != v || !f.Honest || f.To != leader || fm.Vote.Proof == nil || fm.Vote.Proof.PPRef == nil {
				continue
			}
			if int64(fm.Vote.Proof.PPRef.V) > best {
				best, lockHash, lockBlk = int64(fm.Vote.Proof.PPRef.V), fm.Vote.Proof.PPRef.Hash, fm.Block
			}
		}
		if lockHash != nil && lockBlk != nil {
			m = a.mkNV(leader, h, v, votes, lockHash, lockBlk, v)
		}
	}
	// aim at the nodes that have not committed this height
	a.sendSome(leader, a.at(h), m, 90)
	return true
}

func (a *Adversary) replayVote(id string, h, v uint64) *ref.Vote {
	for _, f := range a.w.Seen {
		m := f.Msg
		if m != nil && m.Env == ref.EnvVC && f.Honest && m.Sender.Id == id && m.H == h && m.V != v {
			c := *m.Vote
			c.V = v
			return &c
		}
	}
	return nil
}

// sigLessProof: both block references filled in (view pv, hash of blk), no PREPREPARE sender and no PREPARE senders at all.
func (a *Adversary) sigLessProof(h, pv uint64, blk *spi.Blk) *ref.Proof {
	inst := uint64(spi.InstanceId)
	a.w.Mon.Stats["adv proofs without any signature"]++
	return &ref.Proof{PPRef: &ref.Ref{Type: ref.PP, Inst: inst, H: h, V: pv, Hash: spi.HashOf(blk)}, PRef: &ref.Ref{Type: ref.P, Inst: inst, H: h, V: pv, Hash: spi.HashOf(blk)}}
}

// crossHeightProof: PREPREPARE reference for (h, u, hash X) signed by the Byzantine leader of view u at h, over the genuine PREPARE
// signatures correct members produced for (h-1, u, X) — X being a block of height h-1.
func (a *Adversary) crossHeightProof(h, v uint64) (*ref.Proof, *spi.Blk) {
	if h < 2 {
		return nil, nil
	}
	c := a.w.Comm(h)
	inst := uint64(spi.InstanceId)
	type key struct {
		v    uint64
		hash string
	}
	sigs := map[key]map[string][]byte{}
	blocks := map[string]*spi.Blk{}
	for _, f := range a.w.Seen {
		m := f.Msg
		if m == nil || m.H != h-1 || m.Inst != inst {
			continue
		}
		if (m.Env == ref.EnvPP || m.Env == ref.EnvNV) && m.Block != nil {
			blocks[string(m.Hash)] = m.Block
		}
		if m.Env != ref.EnvP || m.Type != ref.P || m.V >= v || !a.w.Keys.VerifyCM(m.Sender.Id, h-1, m.HdrRaw, m.Sender.Sig) {
			continue
		}
		k := key{m.V, string(m.Hash)}
		if sigs[k] == nil {
			sigs[k] = map[string][]byte{}
		}
		sigs[k][m.Sender.Id] = m.Sender.Sig
	}
	var keys []key
	for k := range sigs {
		keys = append(keys, k)
	}
	sort.Slice(keys, func(i, j int) bool {
		return keys[i].v < keys[j].v || (keys[i].v == keys[j].v && keys[i].hash < keys[j].hash)
	})
	for _, k := range keys {
		blk := blocks[k.hash]
		leader := c.Leader(k.v)
		if blk == nil || !a.w.Cfg.Byz[leader] {
			continue
		}
		ids := []string{leader}
		for id := range sigs[k] {
			if id != leader && c.Has(id) {
				ids = append(ids, id)
			}
		}
		if !c.IsQuorum(ids) {
			continue
		}
		pp := &ref.Ref{Type: ref.PP, Inst: inst, H: h, V: k.v, Hash: []byte(k.hash)}
		pr := &ref.Ref{Type: ref.P, Inst: inst, H: h - 1, V: k.v, Hash: []byte(k.hash)}
		p := &ref.Proof{PPRef: pp, PRef: pr, PPSender: &ref.Sig{Id: leader, Sig: a.sign(leader, h, pp.Bytes())}}
		sort.Strings(ids)
		for _, id := range ids {
			if id != leader {
				p.PSenders = append(p.PSenders, ref.Sig{Id: id, Sig: sigs[k][id]})
			}
		}
		a.w.Mon.Stats["adv cross-height proofs built"]++
		return p, blk
	}
	return nil, nil
}

// viewFlood: a Byzantine member's genuinely signed PREPAREs or COMMITs for many distinct future views of the current height,
// sent to the correct nodes working on it (they are entitled to keep such messages; whatever they do with them must not cost
// them what they hold for the views that matter).
func (a *Adversary) viewFlood(h uint64) bool {
	bm := a.byzMembers(h)
	nodes := a.at(h)
	if len(bm) == 0 || len(nodes) == 0 {
		return false
	}
	b := bm[a.r.Intn(len(bm))]
	inst := uint64(spi.InstanceId)
	vs := a.views(h)
	base := vs[len(vs)-1]
	hash := spi.HashOf(a.newBlock(h, false))
	if ps := a.proposals(h); len(ps) > 0 && a.r.Intn(2) == 0 {
		hash = []byte(ps[a.r.Intn(len(ps))].hash)
	}
	count := 6 + a.r.Intn(40)
	step := uint64(1)
	if a.r.Intn(3) == 0 {
		step = uint64(1) << uint(10+a.r.Intn(40))
	}
	env, typ := ref.EnvP, ref.P
	if a.r.Intn(2) == 0 {
		env, typ = ref.EnvC, ref.C
	}
	for _, n := range nodes {
		if a.r.Intn(4) == 0 {
			continue
		}
		for k := 1; k <= count; k++ {
			f := a.w.Inject(b, n.Id, a.mkRefMsg(env, typ, b, inst, h, base+uint64(k)*step, hash, nil))
			for i := len(a.w.Pool) - 1; i >= 0; i-- {
				if a.w.Pool[i] == f {
					a.w.TakeFlight(i)
					break
				}
			}
			a.w.Deliver(f)
			a.w.Mon.Stats["delivered adversarial"]++
		}
	}
	a.w.Mon.Stats["adv floods of messages for distinct future views"]++
	return true
}

// forgeProof: a prepared proof for blk at view pv signed by whoever the adversary can sign for, garbage otherwise.
func (a *Adversary) forgeProof(h, pv uint64, blk *spi.Blk) *ref.Proof {
	c := a.w.Comm(h)
	inst := uint64(spi.InstanceId)
	pp := &ref.Ref{Type: ref.PP, Inst: inst, H: h, V: pv, Hash: spi.HashOf(blk)}
	pr := &ref.Ref{Type: ref.P, Inst: inst, H: h, V: pv, Hash: spi.HashOf(blk)}
	leader := c.Leader(pv)
	p := &ref.Proof{PPRef: pp, PRef: pr, PPSender: &ref.Sig{Id: leader, Sig: a.sign(leader, h, pp.Bytes())}}
	ids := []string{leader}
	for _, m := range c.Members {
		id := string(m.Id)
		if id == leader {
			continue
		}
		p.PSenders = append(p.PSenders, ref.Sig{Id: id, Sig: a.sign(id, h, pr.Bytes())})
		ids = append(ids, id)
		if c.IsQuorum(ids) {
			break
		}
	}
	return p
}

// twistedNV: genuine votes, but the NEW_VIEW is built wrongly in one respect.
func (a *Adversary) twistedNV(h uint64) bool {
	v, leader, ok := a.byzLedView(h, 1)
	if !ok {
		return false
	}
	c := a.w.Comm(h)
	votes := a.collectVotes(h, v, leader)
	if !c.IsQuorum(voteIds(votes)) {
		return false
	}
	// the lock among the votes
	var lockHash []byte
	var lockBlk *spi.Blk
	best := int64(-1)
	for _, f := range a.w.Seen {
		m := f.Msg
		if m == nil || m.Env != ref.EnvVC || m.H != h || m.V != v || !f.Honest || f.To != leader || m.Vote.Proof == nil || m.Vote.Proof.PPRef == nil {
			continue
		}
		if int64(m.Vote.Proof.PPRef.V) > best {
			best, lockHash, lockBlk = int64(m.Vote.Proof.PPRef.V), m.Vote.Proof.PPRef.Hash, m.Block
		}
	}
	E := a.newBlock(h, a.r.Intn(3) == 0)
	var m *interfaces.ConsensusRawMessage
	variant := a.r.Intn(13)
	lateVotes := false
	switch {
	case variant == 12: // the leader's own vote carries a proof glued from two heights, the NEW_VIEW re-proposes the previous height's block
		cp, cblk := a.crossHeightProof(h, v)
		if cp == nil {
			return false
		}
		for i, vt := range votes {
			if vt.Sender.Id == leader {
				votes[i] = a.mkVote(leader, uint64(spi.InstanceId), h, v, cp)
			}
		}
		m = a.mkNV(leader, h, v, votes, cp.PPRef.Hash, cblk, v)
	case variant == 11 && lockHash != nil:
		// the votes carry a proof, the NEW_VIEW re-proposes (hash and block matching) another block that was accepted earlier at this
		// height — the one some members are still prepared on from a lower view
		var olds []prop
		for _, p := range a.proposals(h) {
			if p.hash != string(lockHash) && p.blk != nil {
				olds = append(olds, p)
			}
		}
		if len(olds) == 0 {
			return false
		}
		old := olds[a.r.Intn(len(olds))]
		m = a.mkNV(leader, h, v, votes, []byte(old.hash), old.blk, v)
	case variant == 9:
		// genuine votes and header, but the embedded proposal carries somebody else's signature (it is outside the signed header)
		hash, blk := spi.HashOf(E), E
		if lockHash != nil {
			hash, blk = lockHash, lockBlk
		}
		inst := uint64(spi.InstanceId)
		emb := &ref.Ref{Type: ref.PP, Inst: inst, H: h, V: v, Hash: hash}
		embSig := &ref.Sig{Id: leader, Sig: a.garbageSig()}
		sg := ref.Sig{Id: leader, Sig: a.sign(leader, h, ref.NVHeaderBytes(ref.NV, inst, h, v, votes))}
		var b interfaces.Block
		if blk != nil {
			b = blk
		}
		m = ref.RawNewViewMsg(ref.NV, inst, h, v, votes, sg, emb, embSig, b)
		lateVotes = true
	case variant == 7 && lockHash == nil:
		// no lock among the votes: the signed proposal names the hash of a block the nodes accepted earlier at this height,
		// but another (never validated) block travels with the message
		ps := a.proposals(h)
		if len(ps) == 0 {
			return false
		}
		old := ps[a.r.Intn(len(ps))]
		m = a.mkNV(leader, h, v, votes, []byte(old.hash), E, v)
	case variant == 8:
		// a "prepared proof" for the EMPTY hash forged from VIEW_CHANGE signatures: a proof-less VIEW_CHANGE header encodes
		// like a block reference without hash, so the votes correct members sent for an earlier Byzantine-led view serve as its PREPAREs
		ep := a.emptyHashProof(h, v)
		if ep == nil {
			return false
		}
		for i, vt := range votes {
			if vt.Sender.Id == leader {
				votes[i] = a.mkVote(leader, uint64(spi.InstanceId), h, v, ep)
			}
		}
		m = a.mkNV(leader, h, v, votes, nil, E, v)
	case variant == 10: // the leader's own vote carries a cross-view proof (highest view among the votes) and the NEW_VIEW re-proposes its block
		cp, cblk := a.crossViewProof(h, v)
		if cp == nil {
			return false
		}
		for i, vt := range votes {
			if vt.Sender.Id == leader {
				votes[i] = a.mkVote(leader, uint64(spi.InstanceId), h, v, cp)
			}
		}
		m = a.mkNV(leader, h, v, votes, cp.PPRef.Hash, cblk, v)
	case variant == 6: // the leader's own vote carries a spliced proof for its block: PREPREPARE ref (own signature, an earlier view it led) over genuine PREPAREs for another hash
		sp := a.splicedProof(h, v, E)
		if sp == nil {
			return false
		}
		for i, vt := range votes {
			if vt.Sender.Id == leader {
				votes[i] = a.mkVote(leader, uint64(spi.InstanceId), h, v, sp)
			}
		}
		m = a.mkNV(leader, h, v, votes, spi.HashOf(E), E, v)
	case variant == 0 && lockHash != nil: // embedded proposal hash of another block, attached block = locked block
		m = a.mkNV(leader, h, v, votes, spi.HashOf(E), lockBlk, v)
	case variant == 1 && lockHash != nil: // fresh block despite the lock
		m = a.mkNV(leader, h, v, votes, spi.HashOf(E), E, v)
	case variant == 2: // embedded proposal of another view
		hash, blk := spi.HashOf(E), E
		if lockHash != nil {
			hash, blk = lockHash, lockBlk
		}
		m = a.mkNV(leader, h, v, votes, hash, blk, v+1)
	case variant == 3 && lockHash != nil: // locked hash but a different attached block
		m = a.mkNV(leader, h, v, votes, lockHash, E, v)
	case variant == 4: // omit votes while keeping quorum (allowed), drop the lock carrier if possible
		var kept []*ref.Vote
		for _, vt := range votes {
			cand := append(append([]*ref.Vote{}, kept...), vt)
			_ = cand
			kept = append(kept, vt)
		}
		for i := range kept {
			rest := append(append([]*ref.Vote{}, kept[:i]...), kept[i+1:]...)
			if kept[i].Proof != nil && c.IsQuorum(voteIds(rest)) {
				kept = rest
				break
			}
		}
		hash, blk := spi.HashOf(E), E
		for _, vt := range kept {
			if vt.Proof != nil && vt.Proof.PPRef != nil {
				hash, blk = lockHash, lockBlk // may be wrong on purpose if a lower lock remains
			}
		}
		m = a.mkNV(leader, h, v, kept, hash, blk, v)
	default: // correct behaviour of a Byzantine leader
		hash, blk := spi.HashOf(E), E
		if lockHash != nil {
			hash, blk = lockHash, lockBlk
		}
		m = a.mkNV(leader, h, v, votes, hash, blk, v)
	}
	a.sendSome(leader, a.at(h), m, 90)
	if lateVotes {
		// the network now lets through the delayed votes of earlier views that are still on their way to their collectors
		for i := 0; i < len(a.w.Pool); i++ {
			f := a.w.Pool[i]
			if f.Honest && f.Msg != nil && f.Msg.Env == ref.EnvVC && f.Msg.H == h && f.Msg.V <= v && a.w.IsCorrect(f.To) {
				a.w.TakeFlight(i)
				i--
				a.w.Deliver(f)
				a.w.Mon.Stats["delivered"]++
			}
		}
	}
	return true
}

// honestLike: a Byzantine leader of view 0 simply proposes a good block (so Byzantine-led heights also make progress).
func (a *Adversary) honestLike(h uint64) bool {
	c := a.w.Comm(h)
	leader := c.Leader(0)
	if !a.w.Cfg.Byz[leader] {
		return false
	}
	k := fmt.Sprintf("hl|%d", h)
	if a.done[k] {
		return false
	}
	a.done[k] = true
	E := a.newBlock(h, false)
	m := a.mkRefMsg(ref.EnvPP, ref.PP, leader, uint64(spi.InstanceId), h, 0, spi.HashOf(E), E)
	a.sendSome(leader, a.at(h), m, 100)
	return true
}

// outsider: an id with a valid key that is not in the committee takes part.
func (a *Adversary) outsider(h uint64) bool {
	if len(a.outs) == 0 {
		return false
	}
	x := a.outs[a.r.Intn(len(a.outs))]
	inst := uint64(spi.InstanceId)
	props := a.proposals(h)
	c := a.w.Comm(h)
	switch a.r.Intn(3) {
	case 0:
		if len(props) == 0 {
			return false
		}
		p := props[a.r.Intn(len(props))]
		a.sendSome(x, a.at(h), a.mkRefMsg(ref.EnvP, ref.P, x, inst, h, p.v, []byte(p.hash), nil), 70)
	case 1:
		if len(props) == 0 {
			return false
		}
		p := props[a.r.Intn(len(props))]
		a.sendSome(x, a.at(h), a.mkRefMsg(ref.EnvC, ref.C, x, inst, h, p.v, []byte(p.hash), nil), 70)
	case 2:
		vs := a.views(h)
		v := vs[a.r.Intn(len(vs))]
		a.send(x, c.Leader(v), ref.RawVoteMsg(a.mkVote(x, inst, h, v, nil), nil))
	}
	return true
}

// vcGames: Byzantine votes aimed at a correct leader.
func (a *Adversary) vcGames(h uint64) bool {
	bm := a.byzMembers(h)
	if len(bm) == 0 {
		return false
	}
	b := bm[a.r.Intn(len(bm))]
	c := a.w.Comm(h)
	vs := a.views(h)
	v := vs[a.r.Intn(len(vs))]
	if v == 0 {
		v = 1
	}
	leader := c.Leader(v)
	if !a.w.IsCorrect(leader) {
		return false
	}
	inst := uint64(spi.InstanceId)
	// a genuine proof seen at this height for a lower view
	var gp *ref.Proof
	var gblk *spi.Blk
	for _, f := range a.w.Seen {
		m := f.Msg
		if m != nil && m.Env == ref.EnvVC && m.H == h && f.Honest && m.Vote.Proof != nil && m.Vote.Proof.PPRef != nil && m.Vote.Proof.PPRef.V < v {
			gp, gblk = m.Vote.Proof, m.Block
		}
	}
	E := a.newBlock(h, false)
	var raw *interfaces.ConsensusRawMessage
	switch a.r.Intn(18) {
	case 16, 17: // a genuine NEW_VIEW of an earlier view (held back, or simply late) reaches the correct leader of the current view
		// after it announced that view; then one more vote for the current view arrives
		ln := a.w.Nodes[leader]
		if ln == nil || uint64(ln.St.Height()) != h || uint64(ln.St.View()) != v {
			return false
		}
		var stale *Flight
		for _, f := range a.w.Seen {
			m := f.Msg
			if m != nil && m.Env == ref.EnvNV && m.H == h && m.V < v && m.V > 0 && f.To != leader {
				stale = f
			}
		}
		if stale == nil {
			return false
		}
		a.w.Mon.Stats["adv stale NEW_VIEW replayed to the leader of a later view"]++
		sf := a.w.Inject(stale.From, leader, stale.Raw)
		for i := len(a.w.Pool) - 1; i >= 0; i-- {
			if a.w.Pool[i] == sf {
				a.w.TakeFlight(i)
				break
			}
		}
		a.w.Deliver(sf)
		a.w.Mon.Stats["delivered adversarial"]++
		raw = ref.RawVoteMsg(a.mkVote(b, inst, h, v, nil), nil)
	case 12: // a proof with both block references and not a single signature, next to a block nobody validated
		bad := a.newBlock(h, true)
		raw = ref.RawVoteMsg(a.mkVote(b, inst, h, v, a.sigLessProof(h, v-1, bad)), bad)
	case 13, 14: // a proof glued from two heights: own PREPREPARE reference for this height over the genuine PREPAREs of the previous one
		cp, cblk := a.crossHeightProof(h, v)
		if cp == nil {
			return false
		}
		raw = ref.RawVoteMsg(a.mkVote(b, inst, h, v, cp), cblk)
	case 9: // a plain vote for a later view the same member leads (one or a few rotations ahead, or far away): legitimate, and
		// it must not get in the way of the votes for the views in between
		v2 := v + uint64(c.N())*uint64(1+a.r.Intn(3))
		if a.r.Intn(4) == 0 {
			v2 = v + uint64(c.N())*(uint64(1)<<uint(20+a.r.Intn(30)))
		}
		if c.Leader(v2) != leader {
			return false
		}
		a.w.Mon.Stats["adv vote for a later view of the same leader"]++
		a.send(b, leader, ref.RawVoteMsg(a.mkVote(b, inst, h, v2, nil), nil))
		return true
	case 0: // genuine proof, no block
		if gp == nil {
			return false
		}
		raw = ref.RawVoteMsg(a.mkVote(b, inst, h, v, gp), nil)
	case 1: // genuine proof, wrong block
		if gp == nil {
			return false
		}
		raw = ref.RawVoteMsg(a.mkVote(b, inst, h, v, gp), E)
	case 2: // genuine proof and block (correct behaviour)
		if gp == nil {
			return false
		}
		raw = ref.RawVoteMsg(a.mkVote(b, inst, h, v, gp), gblk)
	case 3: // block without proof
		raw = ref.RawVoteMsg(a.mkVote(b, inst, h, v, nil), E)
	case 4: // forged proof with its block
		raw = ref.RawVoteMsg(a.mkVote(b, inst, h, v, a.forgeProof(h, v-1, E)), E)
	case 8: // a genuine prepared proof of the OTHER instance (same member keys) for a block of that instance
		op := a.otherInstanceProof(h, v-1, E)
		raw = ref.RawVoteMsg(a.mkVote(b, inst, h, v, op), E)
	case 7: // spliced proof: the Byzantine leader's own PREPREPARE ref for hash X over genuine PREPAREs for hash Y
		sp := a.splicedProof(h, v, E)
		if sp == nil {
			return false
		}
		raw = ref.RawVoteMsg(a.mkVote(b, inst, h, v, sp), E)
	case 10, 11: // cross-view proof: PREPREPARE ref of one view over the genuine PREPAREs of another view, same block
		cp, cblk := a.crossViewProof(h, v)
		if cp == nil {
			return false
		}
		raw = ref.RawVoteMsg(a.mkVote(b, inst, h, v, cp), cblk)
	case 5: // wrong target leader
		other := c.Leader(v + 1)
		a.send(b, other, ref.RawVoteMsg(a.mkVote(b, inst, h, v, nil), nil))
		return true
	default: // plain vote
		raw = ref.RawVoteMsg(a.mkVote(b, inst, h, v, nil), nil)
	}
	a.send(b, leader, raw)
	return true
}

func (a *Adversary) garbage(h uint64) bool {
	nodes := a.at(h)
	if len(nodes) == 0 {
		return false
	}
	n := nodes[a.r.Intn(len(nodes))]
	var content []byte
	if a.r.Intn(2) == 0 && len(a.w.Seen) > 0 {
		src := a.w.Seen[a.r.Intn(len(a.w.Seen))].Raw.Content
		content = append([]byte{}, src...)
		switch a.r.Intn(3) {
		case 0:
			content = content[:a.r.Intn(len(content)+1)]
		case 1:
			if len(content) > 0 {
				content[a.r.Intn(len(content))] ^= byte(1 << uint(a.r.Intn(8)))
			}
		case 2:
			if len(content) >= 8 {
				i := a.r.Intn(len(content) - 3)
				content[i], content[i+1], content[i+2], content[i+3] = 0xff, 0xff, 0xff, 0x7f
			}
		}
	} else {
		content = make([]byte, a.r.Intn(200))
		a.r.Read(content)
	}
	from := "nd0x"
	if len(a.byz) > 0 {
		from = a.byz[0]
	}
	a.send(from, n.Id, &interfaces.ConsensusRawMessage{Content: content})
	return true
}

func (a *Adversary) hugeView(h uint64) bool {
	bm := a.byzMembers(h)
	nodes := a.at(h)
	if len(bm) == 0 || len(nodes) == 0 {
		return false
	}
	b := bm[a.r.Intn(len(bm))]
	inst := uint64(spi.InstanceId)
	views := []uint64{1 << 31, 1<<32 + 1, 1<<63 - 1, 1 << 63, 1<<63 + 1, ^uint64(0) - 1, ^uint64(0)}
	v := views[a.r.Intn(len(views))]
	n := nodes[a.r.Intn(len(nodes))]
	E := a.newBlock(h, false)
	switch a.r.Intn(4) {
	case 0:
		a.send(b, n.Id, ref.RawVoteMsg(a.mkVote(b, inst, h, v, nil), nil))
	case 1:
		a.send(b, n.Id, a.mkRefMsg(ref.EnvP, ref.P, b, inst, h, v, spi.HashOf(E), nil))
	case 2:
		a.send(b, n.Id, a.mkRefMsg(ref.EnvPP, ref.PP, b, inst, h, v, spi.HashOf(E), E))
	case 3:
		// a NEW_VIEW for a far-away view from the Byzantine member that really leads it (few or no votes): rejected, and must leave no trace
		c := a.w.Comm(h)
		for _, cand := range []uint64{v, v + 1, v + 2, v + 3, 4000, 4001, 4002, 4003, 4004, 4005, 4006} {
			if a.w.Cfg.Byz[c.Leader(cand)] {
				l := c.Leader(cand)
				for _, x := range nodes {
					a.send(l, x.Id, a.mkNV(l, h, cand, a.collectVotes(h, cand, l), spi.HashOf(E), E, cand))
				}
				return true
			}
		}
		a.send(b, n.Id, a.mkNV(b, h, v, a.collectVotes(h, v, b), spi.HashOf(E), E, v))
	}
	return true
}

// mutate: take a message seen on the wire, change one thing, deliver it somewhere.
func (a *Adversary) mutate(h uint64) bool {
	w := a.w
	if len(w.Seen) == 0 {
		return false
	}
	var src *Flight
	for try := 0; try < 8; try++ {
		i := len(w.Seen) - 1 - a.r.Intn(minInt(len(w.Seen), 60))
		f := w.Seen[i]
		if f.Msg != nil && f.Msg.H == h {
			src = f
			break
		}
	}
	if src == nil {
		return false
	}
	m, _ := ref.Decode(src.Raw) // private copy
	env := m.Env
	c := w.Comm(h)
	resign := false
	what := a.r.Intn(16)
	other := string(c.Members[a.r.Intn(c.N())].Id)
	switch what {
	case 0: // header type tag
		m.Type = []ref.MT{ref.PP, ref.P, ref.C, ref.NV, ref.VC, 0, 9}[a.r.Intn(7)]
		resign = true
	case 1: // envelope swap among the block-ref messages
		if env > ref.EnvC {
			return false
		}
		env = ref.Env(a.r.Intn(3))
		if env == ref.EnvC && len(m.Share) == 0 {
			m.Share = a.share(m.Sender.Id, m.H)
		}
	case 2:
		m.Inst = a.otherInst()
		resign = true
	case 3:
		m.H = m.H + 1
		resign = true
	case 4:
		if m.H > 1 {
			m.H--
		}
		resign = true
	case 5:
		m.V++
		resign = true
	case 6:
		if m.V > 0 {
			m.V--
		}
		resign = true
	case 7:
		if len(m.Hash) > 0 {
			m.Hash = append([]byte{}, m.Hash...)
			m.Hash[a.r.Intn(len(m.Hash))] ^= 0x40
			if m.EmbPP != nil {
				e := *m.EmbPP
				e.Hash = m.Hash
				m.EmbPP = &e
			}
		}
		resign = true
	case 8: // sender substitution
		ids := []string{other, "", "nobody"}
		if len(a.outs) > 0 {
			ids = append(ids, a.outs[0])
		}
		if len(a.byz) > 0 {
			ids = append(ids, a.byz[a.r.Intn(len(a.byz))])
		}
		m.Sender.Id = ids[a.r.Intn(len(ids))]
		resign = a.r.Intn(2) == 0
	case 9: // signature stripping / swapping
		if a.r.Intn(2) == 0 {
			m.Sender.Sig = nil
		} else {
			m.Sender.Sig = a.garbageSig()
		}
	case 10: // share games
		if env != ref.EnvC {
			return false
		}
		switch a.r.Intn(3) {
		case 0:
			m.Share = a.garbageSig()
		case 1:
			m.Share = nil
		case 2:
			m.Share = a.share(other, m.H)
		}
	case 11: // vote: proof / block games
		if env != ref.EnvVC {
			return false
		}
		switch a.r.Intn(4) {
		case 0:
			m.Vote.Proof = nil
			resign = true
		case 1:
			m.Block = nil
		case 2:
			m.Block = a.newBlock(m.H, false)
		case 3:
			if m.Vote.Proof == nil {
				return false
			}
			p := *m.Vote.Proof
			p.PSenders = append([]ref.Sig{}, p.PSenders...)
			switch a.r.Intn(4) {
			case 0:
				if len(p.PSenders) > 0 {
					p.PSenders = p.PSenders[1:]
				}
			case 1:
				if len(p.PSenders) > 0 {
					p.PSenders = append(p.PSenders, p.PSenders[0])
				}
			case 2:
				if p.PPSender != nil {
					p.PSenders = append(p.PSenders, ref.Sig{Id: p.PPSender.Id, Sig: a.garbageSig()})
				}
			case 3:
				if p.PPRef != nil {
					r := *p.PPRef
					r.V++
					p.PPRef = &r
				}
			}
			m.Vote.Proof = &p
			resign = true
		}
	case 12: // new view: vote list games
		if env != ref.EnvNV || len(m.Votes) == 0 || m.Votes[0] == nil {
			return false
		}
		switch a.r.Intn(4) {
		case 0:
			m.Votes = m.Votes[1:]
		case 1:
			m.Votes = append(m.Votes, m.Votes[0])
		case 2:
			v0 := *m.Votes[0]
			v0.Sender.Sig = a.garbageSig()
			m.Votes = append([]*ref.Vote{&v0}, m.Votes[1:]...)
		case 3:
			m.Block = a.newBlock(m.H, false)
		}
		resign = true
	case 13: // redirect unchanged (replay to another node)
	case 14: // extreme view values
		m.V = []uint64{1<<31 - 1, 1 << 32, 1 << 63, ^uint64(0)}[a.r.Intn(4)]
		resign = true
	case 15: // empty block on a proposal
		if env != ref.EnvPP && env != ref.EnvNV {
			return false
		}
		m.Block = nil
	}
	if resign && a.own[m.Sender.Id] {
		// authentic but semantically wrong
		switch env {
		case ref.EnvPP, ref.EnvP, ref.EnvC:
			m.Sender.Sig = a.sign(m.Sender.Id, m.H, (&ref.Ref{Type: m.Type, Inst: m.Inst, H: m.H, V: m.V, Hash: m.Hash}).Bytes())
		case ref.EnvVC:
			vt := *m.Vote
			vt.Type, vt.Inst, vt.H, vt.V = m.Type, m.Inst, m.H, m.V
			m.Sender.Sig = a.sign(m.Sender.Id, m.H, vt.HeaderBytes())
		case ref.EnvNV:
			m.Sender.Sig = a.sign(m.Sender.Id, m.H, ref.NVHeaderBytes(m.Type, m.Inst, m.H, m.V, m.Votes))
			if m.EmbPP != nil && m.EmbSig != nil && a.own[m.EmbSig.Id] {
				s := *m.EmbSig
				s.Sig = a.sign(s.Id, m.H, m.EmbPP.Bytes())
				m.EmbSig = &s
			}
		}
	}
	raw := ref.Rebuild(m, env)
	if raw == nil {
		return false
	}
	nodes := a.at(h)
	if len(nodes) == 0 {
		return false
	}
	to := src.To
	if !w.IsCorrect(to) || a.r.Intn(2) == 0 {
		to = nodes[a.r.Intn(len(nodes))].Id
	}
	w.Mon.Stats[fmt.Sprintf("adv mutate kind %02d", what)]++
	a.send(src.From, to, raw)
	return true
}

func minInt(a, b int) int {
	if a < b {
		return a
	}
	return b
}

// signOther models the parallel consensus instance that runs with the same member keys:
// signatures of *any* member over headers of the OTHER instance are public knowledge.
func (a *Adversary) signOther(id string, h uint64, raw []byte) []byte {
	return a.w.Keys.SignCM(id, h, raw)
}

// crossInstance replays material of the other instance (same keys) into this one, at the
// current height of some node or into the future cache of a lagging one.
func (a *Adversary) crossInstance(h uint64) bool {
	c := a.w.Comm(h)
	oi := a.otherInst()
	targets := a.at(h)
	if a.r.Intn(2) == 0 {
		targets = append(targets, a.below(h)...)
	}
	if len(targets) == 0 {
		return false
	}
	vs := a.views(h)
	v := vs[a.r.Intn(len(vs))]
	leader := c.Leader(v)
	E := a.newBlock(h, false)
	hash := spi.HashOf(E)
	if ps := a.proposals(h); len(ps) > 0 && a.r.Intn(2) == 0 {
		p := ps[a.r.Intn(len(ps))]
		v, hash, leader = p.v, []byte(p.hash), c.Leader(p.v)
		if p.blk != nil {
			E = p.blk
		}
	}
	mk := func(env ref.Env, typ ref.MT, signer string) *interfaces.ConsensusRawMessage {
		hdr := &ref.Ref{Type: typ, Inst: oi, H: h, V: v, Hash: hash}
		sg := ref.Sig{Id: signer, Sig: a.signOther(signer, h, hdr.Bytes())}
		var share []byte
		if env == ref.EnvC {
			share = a.w.Keys.Share(signer, h, a.w.SeedBytes(h))
		}
		var b interfaces.Block
		if env == ref.EnvPP {
			b = E
		}
		return ref.RawBlockRefMsg(env, hdr, sg, share, b)
	}
	member := string(c.Members[a.r.Intn(c.N())].Id)
	switch a.r.Intn(4) {
	case 0: // a full other-instance NEW_VIEW with genuine (other-instance) votes of a quorum
		if v == 0 {
			v = 1
			leader = c.Leader(v)
		}
		var votes []*ref.Vote
		var ids []string
		for _, m := range c.Members {
			vt := &ref.Vote{Type: ref.VC, Inst: oi, H: h, V: v}
			vt.Sender = ref.Sig{Id: string(m.Id), Sig: a.signOther(string(m.Id), h, vt.HeaderBytes())}
			votes = append(votes, vt)
			ids = append(ids, string(m.Id))
			if c.IsQuorum(ids) {
				break
			}
		}
		if a.r.Intn(2) == 0 {
			// the other instance had this block prepared in an earlier view: its NEW_VIEW re-proposes it under a lock (no validation on that path)
			if a.r.Intn(2) == 0 {
				E = a.newBlock(h, true)
				hash = spi.HashOf(E)
			}
			votes[0] = &ref.Vote{Type: ref.VC, Inst: oi, H: h, V: v, Proof: a.otherInstanceProof(h, v-1, E)}
			votes[0].Sender = ref.Sig{Id: votes[0].Sender.Id, Sig: nil}
			id0 := string(c.Members[0].Id)
			votes[0].Sender = ref.Sig{Id: id0, Sig: a.signOther(id0, h, votes[0].HeaderBytes())}
			// ... and its members' COMMITs for it are on the wire as well
			for _, m := range c.Members {
				hdr := &ref.Ref{Type: ref.C, Inst: oi, H: h, V: v, Hash: hash}
				cm := ref.RawBlockRefMsg(ref.EnvC, hdr, ref.Sig{Id: string(m.Id), Sig: a.signOther(string(m.Id), h, hdr.Bytes())}, a.w.Keys.Share(string(m.Id), h, a.w.SeedBytes(h)), nil)
				for _, n := range targets {
					a.send(string(m.Id), n.Id, cm)
				}
			}
		}
		emb := &ref.Ref{Type: ref.PP, Inst: oi, H: h, V: v, Hash: hash}
		embSig := &ref.Sig{Id: leader, Sig: a.signOther(leader, h, emb.Bytes())}
		sg := ref.Sig{Id: leader, Sig: a.signOther(leader, h, ref.NVHeaderBytes(ref.NV, oi, h, v, votes))}
		raw := ref.RawNewViewMsg(ref.NV, oi, h, v, votes, sg, emb, embSig, E)
		for _, n := range targets {
			a.send(leader, n.Id, raw)
		}
	case 1:
		if v > 0 && !a.allowBare {
			return false
		}
		raw := mk(ref.EnvPP, ref.PP, leader)
		for _, n := range targets {
			a.sendRaw(leader, n.Id, raw)
		}
	case 2:
		raw := mk(ref.EnvP, ref.P, member)
		for _, n := range targets {
			a.send(member, n.Id, raw)
		}
	case 3:
		raw := mk(ref.EnvC, ref.C, member)
		for _, n := range targets {
			a.send(member, n.Id, raw)
		}
	}
	return true
}

// sendRaw is send without the bare-PREPREPARE filter (other-instance proposals are not the recorded finding).
func (a *Adversary) sendRaw(from, to string, raw *interfaces.ConsensusRawMessage) {
	if raw == nil || !a.w.IsCorrect(to) {
		return
	}
	f := a.w.Inject(from, to, raw)
	if a.r.Intn(10) < 6 {
		for i := len(a.w.Pool) - 1; i >= 0; i-- {
			if a.w.Pool[i] == f {
				a.w.TakeFlight(i)
				break
			}
		}
		a.w.Deliver(f)
		a.w.Mon.Stats["delivered adversarial"]++
	}
}

// splicedProof: for a view pv < v led by a Byzantine member in which correct nodes sent PREPAREs for
// some hash Y reaching quorum weight together with the leader, a proof whose PREPREPARE ref (signed by
// that leader) names the hash of blk while the PREPARE ref and its genuine signatures are for Y.
func (a *Adversary) splicedProof(h, v uint64, blk *spi.Blk) *ref.Proof {
	c := a.w.Comm(h)
	inst := uint64(spi.InstanceId)
	type key struct {
		v    uint64
		hash string
	}
	sigs := map[key]map[string][]byte{}
	for _, f := range a.w.Seen {
		m := f.Msg
		if m == nil || m.Env != ref.EnvP || m.Type != ref.P || m.H != h || m.V >= v || m.Inst != inst || !a.w.Cfg.Byz[c.Leader(m.V)] {
			continue
		}
		if !a.w.Keys.VerifyCM(m.Sender.Id, h, m.HdrRaw, m.Sender.Sig) || m.Sender.Id == c.Leader(m.V) {
			continue
		}
		k := key{m.V, string(m.Hash)}
		if sigs[k] == nil {
			sigs[k] = map[string][]byte{}
		}
		sigs[k][m.Sender.Id] = m.Sender.Sig
	}
	for k, set := range sigs {
		leader := c.Leader(k.v)
		ids := []string{leader}
		for id := range set {
			ids = append(ids, id)
		}
		if !c.IsQuorum(ids) {
			continue
		}
		pp := &ref.Ref{Type: ref.PP, Inst: inst, H: h, V: k.v, Hash: spi.HashOf(blk)}
		pr := &ref.Ref{Type: ref.P, Inst: inst, H: h, V: k.v, Hash: []byte(k.hash)}
		p := &ref.Proof{PPRef: pp, PRef: pr, PPSender: &ref.Sig{Id: leader, Sig: a.sign(leader, h, pp.Bytes())}}
		sort.Strings(ids)
		for _, id := range ids {
			if id != leader {
				p.PSenders = append(p.PSenders, ref.Sig{Id: id, Sig: set[id]})
			}
		}
		return p
	}
	return nil
}

// otherInstanceProof: what a quorum of members genuinely signed in the parallel instance for blk at view pv.
func (a *Adversary) otherInstanceProof(h, pv uint64, blk *spi.Blk) *ref.Proof {
	c := a.w.Comm(h)
	oi := a.otherInst()
	if a.w.Cfg.Byz[c.Leader(pv)] && a.r.Intn(2) == 0 {
		// mixed: the PREPREPARE half is of THIS instance (signed by the Byzantine leader of that view), only the PREPARE half —
		// what the members genuinely signed for the same (height, view, hash) — comes from the parallel instance
		leader := c.Leader(pv)
		pp := &ref.Ref{Type: ref.PP, Inst: uint64(spi.InstanceId), H: h, V: pv, Hash: spi.HashOf(blk)}
		pr := &ref.Ref{Type: ref.P, Inst: oi, H: h, V: pv, Hash: spi.HashOf(blk)}
		p := &ref.Proof{PPRef: pp, PRef: pr, PPSender: &ref.Sig{Id: leader, Sig: a.sign(leader, h, pp.Bytes())}}
		ids := []string{leader}
		for _, m := range c.Members {
			id := string(m.Id)
			if id == leader {
				continue
			}
			p.PSenders = append(p.PSenders, ref.Sig{Id: id, Sig: a.signOther(id, h, pr.Bytes())})
			ids = append(ids, id)
			if c.IsQuorum(ids) {
				break
			}
		}
		a.w.Mon.Stats["adv proofs with the PREPARE half of the parallel instance"]++
		return p
	}
	pp := &ref.Ref{Type: ref.PP, Inst: oi, H: h, V: pv, Hash: spi.HashOf(blk)}
	pr := &ref.Ref{Type: ref.P, Inst: oi, H: h, V: pv, Hash: spi.HashOf(blk)}
	leader := c.Leader(pv)
	p := &ref.Proof{PPRef: pp, PRef: pr, PPSender: &ref.Sig{Id: leader, Sig: a.signOther(leader, h, pp.Bytes())}}
	ids := []string{leader}
	for _, m := range c.Members {
		id := string(m.Id)
		if id == leader {
			continue
		}
		p.PSenders = append(p.PSenders, ref.Sig{Id: id, Sig: a.signOther(id, h, pr.Bytes())})
		ids = append(ids, id)
		if c.IsQuorum(ids) {
			break
		}
	}
	return p
}

// corruptNested: a NEW_VIEW / VIEW_CHANGE seen on the wire with a corrupted offset deep inside its nested parts (the
// top-level fields still read fine), sent to nodes at its height and to nodes still below it (future cache).
func (a *Adversary) corruptNested(h uint64) bool {
	w := a.w
	var src *Flight
	for try := 0; try < 12 && src == nil && len(w.Seen) > 0; try++ {
		f := w.Seen[a.r.Intn(len(w.Seen))]
		if f.Msg != nil && (f.Msg.Env == ref.EnvNV || (f.Msg.Env == ref.EnvVC && f.Msg.Vote.Proof != nil)) && len(f.Raw.Content) > 80 && f.Msg.H <= w.Cfg.MaxH {
			src = f
		}
	}
	if src == nil {
		return false
	}
	b := append([]byte{}, src.Raw.Content...)
	i := 40 + a.r.Intn(len(b)-44)
	b[i], b[i+1], b[i+2], b[i+3] = 0xff, 0xff, 0xff, 0xff
	raw := &interfaces.ConsensusRawMessage{Content: b, Block: src.Raw.Block}
	from := src.From
	for _, id := range w.Order {
		n := w.Nodes[id]
		if uint64(n.St.Height()) <= src.Msg.H && a.r.Intn(2) == 0 {
			a.sendRaw(from, id, raw)
		}
	}
	return true
}

// emptyHashProof: PREPREPARE ref {PP, h, pv, no hash} signed by the Byzantine leader of an earlier view pv, and as PREPARE
// part the proof-less VIEW_CHANGE headers (type VIEW_CHANGE, same h and pv, no hash field) that correct members signed for pv.
func (a *Adversary) emptyHashProof(h, v uint64) *ref.Proof {
	c := a.w.Comm(h)
	inst := uint64(spi.InstanceId)
	byView := map[uint64]map[string][]byte{}
	for _, f := range a.w.Seen {
		m := f.Msg
		if m == nil || m.Env != ref.EnvVC || !f.Honest || m.H != h || m.V >= v || m.Vote.Proof != nil || !a.w.Cfg.Byz[c.Leader(m.V)] {
			continue
		}
		if byView[m.V] == nil {
			byView[m.V] = map[string][]byte{}
		}
		byView[m.V][m.Sender.Id] = m.Sender.Sig
	}
	for pv, sigs := range byView {
		leader := c.Leader(pv)
		ids := []string{leader}
		for id := range sigs {
			ids = append(ids, id)
		}
		if !c.IsQuorum(ids) {
			continue
		}
		pp := &ref.Ref{Type: ref.PP, Inst: inst, H: h, V: pv, Hash: nil}
		pr := &ref.Ref{Type: ref.VC, Inst: inst, H: h, V: pv, Hash: nil}
		p := &ref.Proof{PPRef: pp, PRef: pr, PPSender: &ref.Sig{Id: leader, Sig: a.sign(leader, h, pp.Bytes())}}
		sort.Strings(ids)
		for _, id := range ids {
			if id != leader {
				p.PSenders = append(p.PSenders, ref.Sig{Id: id, Sig: sigs[id]})
			}
		}
		return p
	}
	return nil
}

// wrapLen: a PREPARE or COMMIT for the node's current height and view (or the next view) from a Byzantine member,
// correctly signed over its header, whose fixed-size header fields (type, instance, height, view) are in order but whose last
// field, the block hash, declares a length next to 2^32: 32-bit offset arithmetic wraps, eager parsing succeeds, and the
// first reader of the hash field fails deep inside the handling code (a lazily parsing reader).
func (a *Adversary) wrapLen(h uint64) bool {
	bm := a.byzMembers(h)
	nodes := a.at(h)
	if len(bm) == 0 || len(nodes) == 0 {
		return false
	}
	n := nodes[a.r.Intn(len(nodes))]
	c := a.w.Comm(h)
	v := uint64(n.St.View()) + uint64(a.r.Intn(2))
	var b string
	for _, cand := range bm {
		if cand != c.Leader(v) {
			b = cand
		}
	}
	if b == "" {
		return false
	}
	inst := uint64(spi.InstanceId)
	hash := make([]byte, 32)
	a.r.Read(hash)
	if ps := a.proposals(h); len(ps) > 0 && a.r.Intn(2) == 0 {
		hash = []byte(ps[a.r.Intn(len(ps))].hash)
	}
	env, typ := ref.EnvP, ref.P
	if a.r.Intn(2) == 0 {
		env, typ = ref.EnvC, ref.C
	}
	raw := mkWrapLen(func(x []byte) []byte { return a.sign(b, h, x) }, env, typ, b, inst, h, v, hash, byte(0xe0+a.r.Intn(32)), a.share(b, h))
	if raw == nil {
		return false
	}
	a.sendRaw(b, n.Id, raw)
	return true
}

// goodNV: a Byzantine leader of a view above 0 that holds genuine votes of quorum weight sends a *valid* NEW_VIEW (the
// block of the highest valid proof among the votes, else a fresh good block) — so Byzantine-led views make progress too —
// and, in half of the cases, first sends its own PREPARE for that view and block to the nodes that have not reached the view:
// a PREPARE from the member at position (view mod n) of the PREPARE's view, which must never be counted, whatever view the
// receiver is in.
func (a *Adversary) goodNV(h uint64) bool {
	v, leader, ok := a.byzLedView(h, 1)
	if !ok {
		return false
	}
	k := fmt.Sprintf("gnv|%d|%d", h, v)
	if a.done[k] {
		return false
	}
	c := a.w.Comm(h)
	inst := uint64(spi.InstanceId)
	votes := a.collectVotes(h, v, leader)
	if !c.IsQuorum(voteIds(votes)) {
		return false
	}
	a.done[k] = true
	var lockHash []byte
	var lockBlk *spi.Blk
	lockV, have := uint64(0), false
	lockFrom := ""
	for _, f := range a.w.Seen {
		m := f.Msg
		if m == nil || m.Env != ref.EnvVC || m.H != h || m.V != v || !f.Honest || f.To != leader || m.Vote.Proof == nil || m.Vote.Proof.PPRef == nil || m.Block == nil {
			continue
		}
		if !ref.ProofValid(a.w.Keys, c, inst, h, v, m.Vote.Proof) {
			continue
		}
		if !have || m.Vote.Proof.PPRef.V > lockV || (m.Vote.Proof.PPRef.V == lockV && a.r.Intn(2) == 0) {
			// (two valid proofs of one view for different blocks cannot exist while the protocol holds; if they do, the leader is
			// free to prefer either: it puts the vote it prefers first)
			lockV, lockHash, lockBlk, have = m.Vote.Proof.PPRef.V, m.Vote.Proof.PPRef.Hash, m.Block, true
			lockFrom = m.Sender.Id
		}
	}
	if have {
		sort.SliceStable(votes, func(i, j int) bool { return votes[i].Sender.Id == lockFrom && votes[j].Sender.Id != lockFrom })
	}
	hash, blk := lockHash, lockBlk
	if !have {
		blk = a.newBlock(h, false)
		hash = spi.HashOf(blk)
	}
	nodes := a.at(h)
	if !have && a.r.Intn(3) == 0 {
		// the signed proposal of the view first travels alone, with its good block, to nodes that have not reached the view (they
		// validate it and drop it as a future-view message); the valid NEW_VIEW that follows embeds the very same signed
		// proposal but has a block next to it that every validator rejects (blocks are not covered by signatures)
		pp := a.mkRefMsg(ref.EnvPP, ref.PP, leader, inst, h, v, hash, blk)
		for _, n := range nodes {
			if uint64(n.St.View()) < v {
				a.send(leader, n.Id, pp) // (withheld in the workloads that leave standalone PREPREPAREs above view 0 out)
			}
		}
		bad := a.newBlock(h, true)
		a.w.Mon.Stats["adv approved proposal followed by a NEW_VIEW carrying another block"]++
		nv := a.mkNV(leader, h, v, votes, hash, bad, v)
		for _, n := range nodes {
			a.send(leader, n.Id, nv)
		}
		return true
	}
	if a.r.Intn(2) == 0 {
		for _, n := range nodes {
			if uint64(n.St.View()) < v {
				a.w.Mon.Stats["adv PREPARE of a view's leader sent ahead of its NEW_VIEW"]++
				a.send(leader, n.Id, a.mkRefMsg(ref.EnvP, ref.P, leader, inst, h, v, hash, nil))
			}
		}
	}
	nv := a.mkNV(leader, h, v, votes, hash, blk, v)
	for _, n := range nodes {
		a.send(leader, n.Id, nv)
	}
	return true
}

// mkWrapLen builds a PREPARE / COMMIT whose signed header is in order in its fixed-size fields but whose block-hash
// length field is 0xffffff00|lenByte, signed over exactly those bytes.
func mkWrapLen(sign func([]byte) []byte, env ref.Env, typ ref.MT, signer string, inst, h, v uint64, hash []byte, lenByte byte, share []byte) *interfaces.ConsensusRawMessage {
	hdr := append([]byte{}, (&ref.Ref{Type: typ, Inst: inst, H: h, V: v, Hash: hash}).Bytes()...)
	at := len(hdr) - len(hash) - 4
	if at < 0 || len(hash) == 0 {
		return nil
	}
	hdr[at], hdr[at+1], hdr[at+2], hdr[at+3] = lenByte, 0xff, 0xff, 0xff // little-endian
	sg := (&ref.Sig{Id: signer, Sig: sign(hdr)}).Builder()
	lb := &protocol.LeanhelixContentBuilder{}
	if env == ref.EnvP {
		content := (&protocol.PrepareContentBuilder{SignedHeader: protocol.BlockRefBuilderFromRaw(hdr), Sender: sg}).Build().Raw()
		lb.Message, lb.PrepareMessage = protocol.LEANHELIX_CONTENT_MESSAGE_PREPARE_MESSAGE, protocol.PrepareContentBuilderFromRaw(content)
	} else {
		content := (&protocol.CommitContentBuilder{SignedHeader: protocol.BlockRefBuilderFromRaw(hdr), Sender: sg, Share: share}).Build().Raw()
		lb.Message, lb.CommitMessage = protocol.LEANHELIX_CONTENT_MESSAGE_COMMIT_MESSAGE, protocol.CommitContentBuilderFromRaw(content)
	}
	return &interfaces.ConsensusRawMessage{Content: lb.Build().Raw()}
}

// crossViewProof: a prepared proof stitched from two views for one and the same block hash — the PREPREPARE ref for
// (h, u, X) signed by the Byzantine leader of a view u < v, over the PREPARE ref for (h, u', X), u' != u, with the genuine
// PREPARE signatures that members sent for X in view u' (a block proposed in two views: re-proposal of a lock, or a Byzantine
// leader proposing the same block again). Every signature verifies; only the two refs' views differ.
func (a *Adversary) crossViewProof(h, v uint64) (*ref.Proof, *spi.Blk) {
	c := a.w.Comm(h)
	inst := uint64(spi.InstanceId)
	type key struct {
		v    uint64
		hash string
	}
	sigs := map[key]map[string][]byte{}
	for _, f := range a.w.Seen {
		m := f.Msg
		if m == nil || m.Env != ref.EnvP || m.Type != ref.P || m.H != h || m.V >= v || m.Inst != inst {
			continue
		}
		if !a.w.Keys.VerifyCM(m.Sender.Id, h, m.HdrRaw, m.Sender.Sig) {
			continue
		}
		k := key{m.V, string(m.Hash)}
		if sigs[k] == nil {
			sigs[k] = map[string][]byte{}
		}
		sigs[k][m.Sender.Id] = m.Sender.Sig
	}
	blocks := map[string]*spi.Blk{}
	for _, p := range a.proposals(h) {
		if p.blk != nil {
			blocks[p.hash] = p.blk
		}
	}
	var keys []key
	for k := range sigs {
		keys = append(keys, k)
	}
	sort.Slice(keys, func(i, j int) bool {
		return keys[i].v < keys[j].v || (keys[i].v == keys[j].v && keys[i].hash < keys[j].hash)
	})
	for _, k := range keys {
		blk := blocks[k.hash]
		if blk == nil {
			continue
		}
		// candidate views for the PREPREPARE ref: the 2n views on either side of the PREPAREs' view (bounded: views may be huge)
		lo := uint64(0)
		if k.v > uint64(2*c.N()) {
			lo = k.v - uint64(2*c.N())
		}
		for u, tries := lo, 0; u < v && tries < 4*c.N()+4; u, tries = u+1, tries+1 {
			leader := c.Leader(u)
			if u == k.v || !a.w.Cfg.Byz[leader] {
				continue
			}
			ids := []string{leader}
			for id := range sigs[k] {
				if id != leader {
					ids = append(ids, id)
				}
			}
			if !c.IsQuorum(ids) {
				continue
			}
			pp := &ref.Ref{Type: ref.PP, Inst: inst, H: h, V: u, Hash: []byte(k.hash)}
			pr := &ref.Ref{Type: ref.P, Inst: inst, H: h, V: k.v, Hash: []byte(k.hash)}
			p := &ref.Proof{PPRef: pp, PRef: pr, PPSender: &ref.Sig{Id: leader, Sig: a.sign(leader, h, pp.Bytes())}}
			sort.Strings(ids)
			for _, id := range ids {
				if id != leader {
					p.PSenders = append(p.PSenders, ref.Sig{Id: id, Sig: sigs[k][id]})
				}
			}
			a.w.Mon.Stats["adv cross-view proofs built"]++
			return p, blk
		}
	}
	return nil, nil
}

// otherInst: the id of the parallel instance run by the same members with the same keys.
func (a *Adversary) otherInst() uint64 { return a.w.Cfg.OtherInstId() }
