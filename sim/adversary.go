package sim

// Adversary owns the Byzantine and outsider keys and the network.
type Adversary struct {
	w *World
	p *Profile
}

func NewAdversary(w *World, p *Profile) *Adversary { return &Adversary{w: w, p: p} }

func (a *Adversary) Active() bool { return false }
func (a *Adversary) Step() string { return "" }
