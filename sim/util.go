package sim

import (
	"crypto/sha256"
	"encoding/binary"
	"strconv"

	"github.com/orbs-network/lean-helix-go/spec/types/go/primitives"
)

func primitivesH(h uint64) primitives.BlockHeight { return primitives.BlockHeight(h) }
func primitivesV(v uint64) primitives.View        { return primitives.View(v) }

// seedBytes re-derives, independently of the library, the random-seed content
// for a height from the previous proof's aggregated signature:
// sha256(sig) bytes {0,3,7,11,15,19,23,27} little endian, printed in decimal.
func seedBytes(prevSig []byte) []byte {
	h := sha256.Sum256(prevSig)
	arr := []byte{h[0], h[3], h[7], h[11], h[15], h[19], h[23], h[27]}
	return []byte(strconv.FormatUint(binary.LittleEndian.Uint64(arr), 10))
}

// SeedBytesOf exposes the reference seed derivation to other packages.
func SeedBytesOf(prevSig []byte) []byte { return seedBytes(prevSig) }
