package sim

import (
	"encoding/json"
	"fmt"
	"os"
	"runtime"
	"sort"
	"sync"
	"time"

	"verif/harness"
)

// SimCheck describes how one property is decided on the sim engine.
type SimCheck struct {
	Prop          string
	Workload      string
	Profile       func(thorough bool) *Profile
	QuickCases    int
	ThoroughCases int
	// NonTrivial says whether the monitored situation actually arose in a case.
	NonTrivial func(r *Result) bool
	Rule       string
	// Floors: monitor counters that must be reached over the whole run, else the run observed too little.
	Floors      map[string]int
	Judged      []string // counters reported in evidence as "events judged"
	Assumptions []string
	// Extra runs after the random cases (scripted scenarios); returns findings and evidence entries.
	Extra func(run *harness.Run) ([]harness.Finding, map[string]interface{}, []string)
}

type replayFile struct {
	Property string                 `json:"property"`
	Workload string                 `json:"workload"`
	Seed     int64                  `json:"verif_seed"`
	Case     int                    `json:"case"`
	Tier     string                 `json:"tier"`
	Config   map[string]interface{} `json:"config"`
	Viol     []string               `json:"violations"`
	Trace    []StepRec              `json:"trace"`
}

func writeReplay(run *harness.Run, sc *SimCheck, p *Profile, idx int) (string, *Result) {
	pp := *p
	pp.KeepTrace = true
	r := RunCase(run.Seed, &pp, idx)
	rf := replayFile{Property: sc.Prop, Workload: p.Workload, Seed: run.Seed, Case: idx, Tier: run.Tier, Config: r.Cfg.Describe(), Trace: r.Trace}
	for _, v := range r.Viol {
		rf.Viol = append(rf.Viol, fmt.Sprintf("step %d: %s", v.Step, v.String()))
	}
	path := harness.ReplayPath(sc.Prop, fmt.Sprintf("%s-seed%d-case%d", p.Workload, run.Seed, idx))
	harness.WriteJSON(path, rf)
	return path, r
}

// RunSimCheck runs the workload, judges, writes evidence and returns the exit code.
func RunSimCheck(run *harness.Run, sc *SimCheck) int {
	p := sc.Profile(run.Thorough())
	p.Workload = sc.Workload
	if run.Replay != "" {
		return replaySim(run, sc, p)
	}
	cases := run.Pick(sc.QuickCases, sc.ThoroughCases)
	type slot struct {
		idx   int
		start time.Time
	}
	workers := runtime.NumCPU() - 2
	if workers < 2 {
		workers = 2
	}
	var mu sync.Mutex
	total := map[string]int{}
	steps, commits := 0, 0
	nontrivial := map[[32]byte]bool{}
	scheds := map[[32]byte]bool{}
	states := map[[16]byte]bool{}
	var violCases []int
	otherFirst := map[string]int{} // first case in which a rule of another property fired (development aid, see evidence)
	unlistedCases := 0
	known := harness.LoadKnown()
	violByCase := map[int][]Violation{}
	var samples []interface{}
	running := make([]slot, workers)
	ch := make(chan int)
	var wg sync.WaitGroup
	for k := 0; k < workers; k++ {
		wg.Add(1)
		go func(k int) {
			defer wg.Done()
			for i := range ch {
				mu.Lock()
				running[k] = slot{i, time.Now()}
				mu.Unlock()
				r := RunCase(run.Seed, p, i)
				mu.Lock()
				running[k] = slot{-1, time.Time{}}
				steps += r.Steps
				commits += r.Commits
				for k, v := range r.Stats {
					total[k] += v
				}
				scheds[r.Sched] = true
				for s := range r.StateSet {
					states[s] = true
				}
				if sc.NonTrivial(r) {
					nontrivial[r.Sched] = true
				}
				var mine []Violation
				for _, v := range r.Viol {
					if v.Prop == sc.Prop {
						mine = append(mine, v)
					} else if _, ok := otherFirst[v.Prop+"/"+v.Rule]; !ok {
						otherFirst[v.Prop+"/"+v.Rule] = i
					}
				}
				if len(mine) > 0 {
					violCases = append(violCases, i)
					violByCase[i] = mine
					for _, v := range mine {
						if harness.Match(known, &harness.Finding{Prop: v.Prop, Rule: v.Rule, Taint: v.Taint}) == nil {
							unlistedCases++
							break
						}
					}
				}
				if len(samples) < 3 && sc.NonTrivial(r) {
					samples = append(samples, map[string]interface{}{"case": i, "config": r.Cfg.Describe(), "steps": r.Steps, "commits": r.Commits, "violations_of_this_property": len(mine)})
				}
				mu.Unlock()
			}
		}(k)
	}
	// watchdog: a case that runs longer than 120 s wall means the code under test is stuck
	done := make(chan struct{})
	go func() {
		t := time.NewTicker(2 * time.Second)
		defer t.Stop()
		for {
			select {
			case <-done:
				return
			case <-t.C:
				mu.Lock()
				for _, s := range running {
					if s.idx >= 0 && time.Since(s.start) > 120*time.Second {
						fmt.Printf("INCONCLUSIVE property=%s case %d of workload %s did not finish within 120 s (code under test stuck?)\n", sc.Prop, s.idx, p.Workload)
						os.Exit(3)
					}
				}
				mu.Unlock()
			}
		}
	}()
	stoppedEarly := -1
	for i := 0; i < cases; i++ {
		mu.Lock()
		nv := unlistedCases
		mu.Unlock()
		if nv >= 40 {
			// the property is violated (not by a listed known finding) in 40 cases already: the verdict cannot change, the remaining cases are not run
			stoppedEarly = i
			break
		}
		ch <- i
	}
	close(ch)
	wg.Wait()
	close(done)

	// findings, one replay file per distinct (rule, taint), at most a few
	var findings []harness.Finding
	sort.Ints(violCases)
	written := map[string]int{}
	for _, i := range violCases {
		for _, v := range violByCase[i] {
			key := v.Rule + "|" + v.Taint
			path := ""
			if written[key] < 2 {
				written[key]++
				path, _ = writeReplay(run, sc, p, i)
			}
			findings = append(findings, harness.Finding{Prop: v.Prop, Rule: v.Rule, Taint: v.Taint, Detail: v.Detail, Replay: path})
		}
	}
	// give every finding of a rule a replay path (the first written for that rule)
	first := map[string]string{}
	for _, f := range findings {
		if f.Replay != "" {
			if _, ok := first[f.Rule+"|"+f.Taint]; !ok {
				first[f.Rule+"|"+f.Taint] = f.Replay
			}
		}
	}
	for i := range findings {
		if findings[i].Replay == "" {
			findings[i].Replay = first[findings[i].Rule+"|"+findings[i].Taint]
		}
	}
	cov := map[string]interface{}{
		"evaluations":                           cases,
		"distinct_nontrivial":                   len(nontrivial),
		"rule":                                  sc.Rule,
		"samples":                               samples,
		"scheduler_steps":                       steps,
		"distinct_schedules":                    len(scheds),
		"distinct_abstract_states":              len(states),
		"commits_observed":                      commits,
		"cases_with_violation_of_this_property": len(violCases),
	}
	judged := map[string]int{}
	for _, k := range sc.Judged {
		judged[k] = total[k]
	}
	cov["events_judged"] = judged
	if stoppedEarly >= 0 {
		cov["stopped_after_40_violating_cases_at_case"] = stoppedEarly
		sc.Floors = nil // (floors are about exploring enough when nothing is found)
	}
	adv := map[string]int{}
	for k, v := range total {
		if len(k) > 4 && k[:4] == "adv " {
			adv[k[4:]] = v
		}
	}
	cov["adversary_actions"] = adv
	other := map[string]int{}
	for k, v := range total {
		if len(k) > 5 && k[:5] == "viol " && (len(k) < 8 || k[5:8] != sc.Prop) {
			other[k[5:]] = v
		}
	}
	if len(other) > 0 {
		cov["violations_of_other_properties_seen_(reported_by_their_own_checks)"] = other
		cov["first_case_of_each_of_those"] = otherFirst
	}
	var inconclusive []string
	for k, min := range sc.Floors {
		if total[k] < min {
			inconclusive = append(inconclusive, fmt.Sprintf("floor missed: %q = %d < %d (the workload observed too little)", k, total[k], min))
		}
	}
	if len(nontrivial) < 2 {
		inconclusive = append(inconclusive, "fewer than 2 non-trivial cases")
	}
	if sc.Extra != nil {
		fs, ev, inc := sc.Extra(run)
		inconclusive = append(inconclusive, inc...)
		findings = append(findings, fs...)
		for k, v := range ev {
			cov[k] = v
		}
	}
	if len(samples) == 0 {
		samples = append(samples, map[string]interface{}{"note": "no non-trivial case"})
		cov["samples"] = samples
	}
	nviol := 0
	for _, f := range findings {
		if f.Prop == sc.Prop {
			nviol++
		}
	}
	run.WriteEvidence("exploration", cov, sc.Assumptions, nviol)
	fmt.Printf("%s %s: cases=%d steps=%d commits=%d nontrivial=%d schedules=%d states=%d judged=%v\n", sc.Prop, run.Tier, cases, steps, commits, len(nontrivial), len(scheds), len(states), judged)
	return run.Conclude(findings, inconclusive)
}

func replaySim(run *harness.Run, sc *SimCheck, p *Profile) int {
	b, err := os.ReadFile(run.Replay)
	if err != nil {
		fmt.Println("cannot read replay file:", err)
		return 2
	}
	var rf replayFile
	if err := json.Unmarshal(b, &rf); err != nil {
		fmt.Println("bad replay file:", err)
		return 2
	}
	if rf.Workload == "" {
		// not a recorded sim case: the file documents a finding of a scripted / runtime part of this check, which is
		// deterministic in VERIF_SEED — that part is re-executed as a whole and re-judged
		fmt.Printf("replay file %s documents a scripted / runtime finding; re-running that part of the check (seed %d)\n", run.Replay, run.Seed)
		var findings []harness.Finding
		var inc []string
		if sc.Extra != nil {
			fs, _, i := sc.Extra(run)
			findings, inc = fs, i
		}
		return run.Conclude(findings, inc)
	}
	run.Seed = rf.Seed
	prof := sc.Profile(rf.Tier == "thorough")
	prof.Workload = rf.Workload
	prof.KeepTrace = true
	r := RunCase(rf.Seed, prof, rf.Case)
	for i, s := range r.Trace {
		fmt.Printf("%4d %-8s %-4s <- %-4s %s\n", i, s.Kind, s.Node, s.From, s.Info)
	}
	var findings []harness.Finding
	for _, v := range r.Viol {
		fmt.Printf("step %d: %s\n", v.Step, v)
		if v.Prop == sc.Prop {
			findings = append(findings, harness.Finding{Prop: v.Prop, Rule: v.Rule, Taint: v.Taint, Detail: v.Detail, Replay: run.Replay})
		}
	}
	return run.Conclude(findings, nil)
}

// ScriptedFindings turns the violations of a scripted scenario into findings with a replay file.
func ScriptedFindings(prop, name string, r *Result) []harness.Finding {
	path := harness.ReplayPath(prop, "scripted-"+name)
	var vl []string
	for _, v := range r.Viol {
		vl = append(vl, fmt.Sprintf("step %d: %s", v.Step, v.String()))
	}
	harness.WriteJSON(path, map[string]interface{}{"property": prop, "scripted_scenario": name, "config": r.Cfg.Describe(), "violations": vl, "trace": r.Trace})
	var out []harness.Finding
	for _, v := range r.Viol {
		out = append(out, harness.Finding{Prop: v.Prop, Rule: v.Rule, Taint: v.Taint, Detail: v.Detail, Replay: path})
	}
	return out
}

// RunWorkloadFor runs `cases` cases of a workload and returns the violations of one property as findings (with replay
// files for the first of each rule) plus the totals of the counters named in `judged` — the sim half of a check whose main
// part lives elsewhere.
func RunWorkloadFor(run *harness.Run, prop, workload string, p *Profile, cases int, judged []string) ([]harness.Finding, map[string]interface{}) {
	p.Workload = workload
	sc := &SimCheck{Prop: prop, Workload: workload, Profile: func(bool) *Profile { return p }}
	workers := runtime.NumCPU() - 2
	if workers < 2 {
		workers = 2
	}
	var mu sync.Mutex
	total := map[string]int{}
	steps := 0
	byCase := map[int][]Violation{}
	ch := make(chan int)
	var wg sync.WaitGroup
	for k := 0; k < workers; k++ {
		wg.Add(1)
		go func() {
			defer wg.Done()
			for i := range ch {
				r := RunCase(run.Seed, p, i)
				mu.Lock()
				steps += r.Steps
				for k, v := range r.Stats {
					total[k] += v
				}
				for _, v := range r.Viol {
					if v.Prop == prop {
						byCase[i] = append(byCase[i], v)
					}
				}
				mu.Unlock()
			}
		}()
	}
	for i := 0; i < cases; i++ {
		mu.Lock()
		n := len(byCase)
		mu.Unlock()
		if n >= 40 {
			break
		}
		ch <- i
	}
	close(ch)
	wg.Wait()
	var idx []int
	for i := range byCase {
		idx = append(idx, i)
	}
	sort.Ints(idx)
	var findings []harness.Finding
	written := map[string]string{}
	for _, i := range idx {
		for _, v := range byCase[i] {
			key := v.Rule + "|" + v.Taint
			if written[key] == "" {
				written[key], _ = writeReplay(run, sc, p, i)
			}
			findings = append(findings, harness.Finding{Prop: v.Prop, Rule: v.Rule, Taint: v.Taint, Detail: v.Detail, Replay: written[key]})
		}
	}
	ev := map[string]interface{}{"sim_workload": workload, "sim_cases": cases, "sim_scheduler_steps": steps, "sim_cases_with_violation_of_this_property": len(byCase)}
	j := map[string]int{}
	for _, k := range judged {
		j[k] = total[k]
	}
	ev["sim_events_judged"] = j
	return findings, ev
}
