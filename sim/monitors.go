package sim

import (
	"bytes"
	"context"
	"fmt"
	"sort"
	"strings"
	"time"

	leanhelix "github.com/orbs-network/lean-helix-go"
	"github.com/orbs-network/lean-helix-go/services/interfaces"
	"github.com/orbs-network/lean-helix-go/spec/types/go/protocol"

	"verif/ref"
	"verif/spi"
)

type Violation struct {
	Prop   string
	Rule   string // stable rule id = fingerprint of the kind of failure
	Detail string
	Step   int
	Taint  string // non-empty: a recorded known finding was triggered earlier at this height of this case (possible root cause)
}

func (v Violation) String() string { return fmt.Sprintf("%s/%s: %s", v.Prop, v.Rule, v.Detail) }

type hv struct{ H, V uint64 }
type hvh struct {
	H, V uint64
	Hash string
}

// nodeMon is the monitor-side shadow of one correct node: what it was given
// (judged by the reference predicates) and what it emitted.
type nodeMon struct {
	// inputs judged by the reference
	proposals map[hvh]bool                 // proposal (h,v,hash) signed by leader(v) delivered (standalone or inside NEW_VIEW), or own
	validNV   map[hv]map[string]bool       // (h,v) -> hashes proposed by a reference-valid NEW_VIEW delivered; value: needs consumer validation
	prepares  map[hvh]map[string]bool      // authentic PREPARE senders
	commits   map[hvh]map[string]bool      // authentic COMMIT senders (valid share)
	votes     map[hv]map[string]*ref.Vote  // authentic votes addressed to this node
	validated map[string]bool              // hashes this node's ValidateBlockProposal approved
	barePP    map[hvh]bool                 // authentic standalone PREPREPARE of leader(v), v>0, delivered
	storedPP  map[hv]string                // proposal the node stored per (h,v)
	blockless map[hv]bool                  // ... and it was stored without a block hashing to it
	storedP   map[hvh]map[string]bool      // PREPARE senders the node stored (its own included)
	heldCert  map[uint64]map[uint64]string // h -> view -> hash: the node held a prepared certificate (stored proposal + stored PREPAREs reaching quorum with the leader) while in that view
	ignoredNV map[uint64]uint64            // h -> highest view of a delivered NEW_VIEW that the reference says must be ignored
	electedAt map[hv]bool                  // the node sent a NEW_VIEW as leader of (h,v)
	// outputs
	sentPP   map[hv]string
	sentP    map[hv]string
	sentC    map[hv]string
	lastVC   map[uint64]uint64
	storedVC map[hv]map[string]*interfaces.ViewChangeMessage // votes the node counted (StoreViewChange ok)
	// C13
	lastCommitH  int64
	lastRoundH   int64
	lastH, lastV uint64
	sampled      bool
	// C17, future cache at worker level
	futMax                  uint64                  // highest future height of any message received so far
	futUnknown              bool                    // bytes arrived whose height cannot be told: nothing is expected of the cache any more
	futExp                  map[uint64][]futExp     // height -> messages of correct members that the cache has to hand to the term of that height
	storeTried              map[string]bool         // (kind, h, v, hash, sender) the protocol logic handed to the Storage
	storeHeld, storeRefused map[string]bool         // ... that the Storage accepted / turned down although it did not hold it
	heldC                   map[hvh]map[string]bool // COMMIT senders in the node\'s log per (h, v, hash), its own included
}

// futExp is a PREPARE or COMMIT of a correct member received while its height was still ahead of the node.
type futExp struct {
	kind   spi.Kind
	v      uint64
	hash   string
	sender string
}

func storeKey(kind spi.Kind, h, v uint64, hash, sender string) string {
	return fmt.Sprintf("%d|%d|%d|%x|%s", kind, h, v, hash, sender)
}

func newNodeMon() *nodeMon {
	return &nodeMon{proposals: map[hvh]bool{}, validNV: map[hv]map[string]bool{}, prepares: map[hvh]map[string]bool{}, commits: map[hvh]map[string]bool{},
		votes: map[hv]map[string]*ref.Vote{}, validated: map[string]bool{}, barePP: map[hvh]bool{}, storedPP: map[hv]string{}, blockless: map[hv]bool{}, storedP: map[hvh]map[string]bool{}, heldCert: map[uint64]map[uint64]string{}, ignoredNV: map[uint64]uint64{}, electedAt: map[hv]bool{}, sentPP: map[hv]string{}, sentP: map[hv]string{}, sentC: map[hv]string{}, lastVC: map[uint64]uint64{},
		storedVC: map[hv]map[string]*interfaces.ViewChangeMessage{}, lastCommitH: -1, lastRoundH: -1, futExp: map[uint64][]futExp{}, storeTried: map[string]bool{}, storeHeld: map[string]bool{}, storeRefused: map[string]bool{}, heldC: map[hvh]map[string]bool{}}
}

type Monitors struct {
	w     *World
	nm    map[string]*nodeMon
	Viol  []Violation
	Stats map[string]int
	// C01
	decided   map[uint64]string
	decidedBy map[uint64]string
	// C04 knowledge
	minted   map[string]bool // hashes minted by correct nodes' RequestNewBlockProposal
	approved map[string]bool // hashes approved by some correct member's validator (hash|h)
	// current delivery context (effects are attributed inside the synchronous call)
	cur *deliveryCtx
	// switches
	JudgeC11 bool
	// known findings triggered in this case (name -> true); later violations carry them as possible root cause
	taint map[string]bool
	// nodes whose worker recovered from a panic during the current step: their storage is probed afterwards
	probe map[string]bool
}

func NewMonitors(w *World) *Monitors {
	return &Monitors{w: w, nm: map[string]*nodeMon{}, Stats: map[string]int{}, decided: map[uint64]string{}, decidedBy: map[uint64]string{}, minted: map[string]bool{}, approved: map[string]bool{}, JudgeC11: true, taint: map[string]bool{}}
}

func (m *Monitors) node(id string) *nodeMon {
	x, ok := m.nm[id]
	if !ok {
		x = newNodeMon()
		m.nm[id] = x
	}
	return x
}

func (m *Monitors) violate(prop, rule, format string, a ...interface{}) {
	v := Violation{Prop: prop, Rule: rule, Detail: fmt.Sprintf(format, a...), Step: len(m.w.Trace)}
	if len(m.taint) > 0 {
		v.Taint = m.taintNames()
	}
	m.Viol = append(m.Viol, v)
	m.Stats["viol "+prop+"/"+rule]++
}

// taintNames lists the known findings already triggered in this case.
func (m *Monitors) taintNames() string {
	var l []string
	for k := range m.taint {
		l = append(l, k)
	}
	sort.Strings(l)
	return strings.Join(l, "+")
}

func (m *Monitors) Has(prop string) bool {
	for _, v := range m.Viol {
		if v.Prop == prop {
			return true
		}
	}
	return false
}

// ---------------------------------------------------------------- pre/post step

type preState struct {
	H, V uint64
}

type deliveryCtx struct {
	n       *Node
	f       *Flight
	pre     preState
	mustIgn string // non-empty: reference says this message must not influence the node; value = reason
	hadPP   bool   // C11: proposal already stored for (m.H, m.V) before delivery
	inComm  bool
	handoff bool // an election trigger or a sync of this node sits between its main loop and its worker (split hand-off):
	// the main loop has already cancelled the contexts of the position the node is being told to leave
}

func (m *Monitors) PreStep(n *Node) *deliveryCtx {
	hvv := n.St.HeightView()
	return &deliveryCtx{n: n, pre: preState{uint64(hvv.Height()), uint64(hvv.View())}}
}

func weightOK(c *ref.Committee, set map[string]bool, extra ...string) bool {
	ids := make([]string, 0, len(set)+len(extra))
	for id := range set {
		ids = append(ids, id)
	}
	ids = append(ids, extra...)
	return c.IsQuorum(ids)
}

// classify records what the reference thinks of message msg delivered to node n,
// and returns the reason it must be ignored ("" = may influence).
func (m *Monitors) classify(n *Node, msg *ref.Msg, pre preState) string {
	w := m.w
	nm := m.node(n.Id)
	if msg.H == 0 || msg.H > w.Cfg.MaxH+1 {
		if msg.H != pre.H {
			return "height-mismatch"
		}
	}
	c := w.Comm(msg.H)
	reason := ""
	set := func(r string) {
		if reason == "" {
			reason = r
		}
	}
	if msg.Sender.Id == n.Id {
		set("own-sender")
	}
	if msg.Inst != uint64(spi.InstanceId) {
		set("wrong-instance")
	}
	if msg.Type != ref.HeaderTypeOf(msg.Env) {
		set("header-type-differs-from-envelope")
	}
	if !c.Has(msg.Sender.Id) {
		set("sender-not-in-committee")
	}
	if !w.Keys.VerifyCM(msg.Sender.Id, msg.H, msg.HdrRaw, msg.Sender.Sig) {
		set("bad-signature")
	}
	if !c.Has(n.Id) {
		set("receiver-not-in-committee")
	}
	authentic := reason == ""
	leader := c.Leader(msg.V)
	key := hvh{msg.H, msg.V, string(msg.Hash)}
	switch msg.Env {
	case ref.EnvPP:
		if msg.Sender.Id != leader {
			set("preprepare-not-from-leader")
		}
		if msg.Block == nil || !bytes.Equal(spi.HashOf(msg.Block), msg.Hash) {
			// proposal without matching block can never be prepared/committed; storing it is not forbidden by C08
		}
		if authentic && msg.Sender.Id == leader {
			nm.proposals[key] = true
			if msg.V > 0 {
				nm.barePP[key] = true
			}
		}
	case ref.EnvP:
		if msg.Sender.Id == leader {
			set("prepare-from-leader")
		}
		if msg.H == pre.H && msg.V < pre.V {
			set("stale-view-prepare")
		}
		if authentic && msg.Sender.Id != leader && !(msg.H == pre.H && msg.V < pre.V) { // (a stale PREPARE is ignored by the node: it is not something it holds)
			if nm.prepares[key] == nil {
				nm.prepares[key] = map[string]bool{}
			}
			nm.prepares[key][msg.Sender.Id] = true
		}
	case ref.EnvC:
		seedOK := w.Keys.VerifyShare(msg.Sender.Id, msg.H, w.SeedBytesFor(n, msg.H), msg.Share)
		if !seedOK {
			set("bad-random-seed-share")
		}
		if authentic && seedOK {
			if nm.commits[key] == nil {
				nm.commits[key] = map[string]bool{}
			}
			nm.commits[key][msg.Sender.Id] = true
		}
	case ref.EnvVC:
		if n.Id != leader {
			set("view-change-not-addressed-to-me")
		}
		if msg.H == pre.H && msg.V < pre.V {
			set("stale-view-view-change")
		}
		proofOK := ref.ProofValid(w.Keys, c, uint64(spi.InstanceId), msg.H, msg.V, msg.Vote.Proof)
		if !proofOK {
			set("invalid-prepared-proof")
		}
		if msg.Vote.Proof != nil && msg.Block != nil && msg.Vote.Proof.PPRef != nil && !bytes.Equal(spi.HashOf(msg.Block), msg.Vote.Proof.PPRef.Hash) {
			set("vote-block-differs-from-proof")
		}
		if authentic && n.Id == leader && proofOK {
			k := hv{msg.H, msg.V}
			if nm.votes[k] == nil {
				nm.votes[k] = map[string]*ref.Vote{}
			}
			if _, dup := nm.votes[k][msg.Sender.Id]; !dup {
				nm.votes[k][msg.Sender.Id] = msg.Vote
			}
		}
	case ref.EnvNV:
		if msg.H == pre.H && msg.V < pre.V {
			set("stale-view-new-view")
		}
		if msg.Sender.Id != leader {
			set("new-view-not-from-leader")
		}
		if authentic && msg.EmbPP != nil && msg.EmbSig != nil && msg.EmbPP.Type == ref.PP && msg.EmbPP.Inst == uint64(spi.InstanceId) && msg.EmbPP.H == msg.H && msg.EmbPP.V == msg.V &&
			msg.EmbSig.Id == leader && w.Keys.VerifyCM(leader, msg.H, msg.EmbPP.Raw, msg.EmbSig.Sig) {
			nm.proposals[key] = true
		}
		if msg.Inst == uint64(spi.InstanceId) {
			vd := ref.NewViewValid(w.Keys, c, uint64(spi.InstanceId), msg)
			if vd.Valid {
				k := hv{msg.H, msg.V}
				if nm.validNV[k] == nil {
					nm.validNV[k] = map[string]bool{}
				}
				nm.validNV[k][string(msg.Hash)] = vd.LockedHash == nil // fresh proposal: needs consumer validation
			} else {
				set("invalid-new-view:" + vd.Why)
			}
		}
	}
	if msg.H != pre.H {
		// future: cached without effect; past: dropped. Either way nothing may happen now.
		return "height-mismatch"
	}
	return reason
}

// SeedBytes is the random seed content signed in COMMIT shares at height h
// (derived from the previous height's proof, all valid proofs carry the same aggregate).
func (w *World) SeedBytes(h uint64) []byte {
	var prevSig []byte
	if h > 1 {
		if c, ok := w.Canon[h-1]; ok {
			prevSig = protocol.BlockProofReader(c.Proof).RandomSeedSignature()
		}
	}
	return seedBytes(prevSig)
}

// noteFuture (C17 at worker level): a PREPARE or COMMIT a correct member sent for a height the node has not reached yet is
// accepted for caching when nothing for a higher height was received before it; it stays due until something for a
// higher height arrives, and has to reach the protocol logic of that height's term when the node starts that height.
func (m *Monitors) noteFuture(n *Node, f *Flight, pre preState) {
	nm := m.node(n.Id)
	if nm.futUnknown {
		return
	}
	bump := func(h uint64) {
		if h > nm.futMax {
			for x := range nm.futExp {
				if x < h {
					delete(nm.futExp, x)
				}
			}
			nm.futMax = h
		}
	}
	if f.Msg == nil {
		// bytes the reference does not read: only the height matters here (it may evict what is cached)
		h, ok := func() (h uint64, ok bool) {
			defer func() {
				if recover() != nil {
					ok = false
				}
			}()
			pm := interfaces.ToConsensusMessage(f.Raw)
			if pm == nil {
				return 0, true
			}
			return uint64(pm.BlockHeight()), true
		}()
		if !ok {
			nm.futUnknown = true
			nm.futExp = map[uint64][]futExp{}
			return
		}
		if h > pre.H {
			bump(h)
		}
		return
	}
	msg := f.Msg
	if msg.H <= pre.H {
		return
	}
	if msg.H >= nm.futMax && f.Honest && m.w.IsCorrect(f.From) && msg.Inst == uint64(spi.InstanceId) && msg.Sender.Id != n.Id && msg.H <= m.w.Cfg.MaxH+1 {
		switch msg.Env {
		case ref.EnvP:
			nm.futExp[msg.H] = append(nm.futExp[msg.H], futExp{spi.EvStoreP, msg.V, string(msg.Hash), msg.Sender.Id})
		case ref.EnvC:
			nm.futExp[msg.H] = append(nm.futExp[msg.H], futExp{spi.EvStoreC, msg.V, string(msg.Hash), msg.Sender.Id})
		}
	}
	bump(msg.H)
}

// judgeFuture runs after every step of node n: the round of a height with due messages has been started.
func (m *Monitors) judgeFuture(n *Node, nm *nodeMon, h, v uint64) {
	if len(nm.futExp) == 0 || nm.lastRoundH < 0 {
		return
	}
	for H, exps := range nm.futExp {
		if int64(H) > nm.lastRoundH {
			continue
		}
		delete(nm.futExp, H)
		c := m.w.Comm(H)
		// (a height the node jumped over, one that a cached message has already ended, or one whose committee the node is not in: nothing due)
		if int64(H) != nm.lastRoundH || h != H || !c.Has(n.Id) || n.Wedged {
			continue
		}
		for _, x := range exps {
			if !c.Has(x.sender) {
				continue
			}
			if x.kind == spi.EvStoreP && (v != 0 || c.Leader(x.v) == x.sender) {
				continue // (the node has left view 0 while consuming: a PREPARE of an earlier view may have been refused as stale)
			}
			m.Stats["C17 cached messages of correct members judged at the start of their height"]++
			if !nm.storeTried[storeKey(x.kind, H, x.v, x.hash, x.sender)] {
				what := "PREPARE"
				if x.kind == spi.EvStoreC {
					what = "COMMIT"
				}
				m.violate("C17", "cached-future-message-not-delivered", "node %s: the %s (h=%d v=%d hash=%x) of correct member %s was received while the node was below height %d, nothing for a higher height had been received before it or since, the node has now started height %d as a committee member — and the message never reached the protocol logic of that term (it was not handed to the Storage)", n.Id, what, H, x.v, short([]byte(x.hash)), x.sender, H, H)
			}
		}
	}
}

// SeedBytesFor is the seed node n verifies COMMIT shares of height h against: the one all proofs of h-1 carry, unless the node
// entered h by a sync without proof (then the seed of an absent signature: no share of a member that holds the proof fits it).
func (w *World) SeedBytesFor(n *Node, h uint64) []byte {
	if n != nil && n.NoProofAt[h] {
		return seedBytes(nil)
	}
	return w.SeedBytes(h)
}

func (m *Monitors) PreDelivery(n *Node, f *Flight) *deliveryCtx {
	d := m.PreStep(n)
	d.f = f
	m.cur = d
	m.noteFuture(n, f, d.pre)
	if f.Msg == nil {
		return d
	}
	msg := f.Msg
	d.mustIgn = m.classify(n, msg, d.pre)
	if _, ok := n.Store.GetPreprepareMessage(primitivesH(msg.H), primitivesV(msg.V)); ok {
		d.hadPP = true
	}
	d.inComm = m.w.Comm(msg.H).Has(n.Id)
	d.handoff = n.pendTrig != nil || n.pendSync != nil || n.handSync != nil
	return d
}

// effect kinds that show the node was influenced
func isEffect(e *spi.Event) bool {
	switch e.Kind {
	case spi.EvSend, spi.EvStorePP, spi.EvStoreP, spi.EvStoreC, spi.EvStoreVC, spi.EvCommit, spi.EvNewRound, spi.EvRequestBlock, spi.EvRegister, spi.EvCommittee:
		// (a ValidateBlockProposal call is a query to the consumer, the way a proposal gets rejected: not an influence)
		return true
	}
	return false
}

func (m *Monitors) PostDelivery(d *deliveryCtx, effects []spi.Event, panicked bool) {
	n, f := d.n, d.f
	m.cur = nil
	if n.pendTrig != nil || n.pendSync != nil || n.handSync != nil {
		d.handoff = true // (the main loop acted while the handler was running: the node was told to leave its position half-way through)
	}
	if m.probe[n.Id] {
		delete(m.probe, n.Id)
		m.probeStorage(n)
	}
	m.sample(n)
	if f.Msg == nil {
		// undecodable bytes: any effect at all is an influence by an unauthenticated message
		for i := range effects {
			if effects[i].Node == n.Id && isEffect(&effects[i]) {
				m.violate("C08", "effect-of-undecodable-message", "node %s: %s caused by undecodable bytes", n.Id, effects[i].Kind)
				break
			}
		}
		return
	}
	msg := f.Msg
	// ---- C08(b): a message the reference says must be ignored has no effect
	m.Stats["C08 deliveries judged"]++
	if d.mustIgn != "" {
		m.Stats["C08 must-ignore deliveries"]++
		if msg.Env == ref.EnvNV && msg.H == d.pre.H {
			if msg.V > nm0(m, n).ignoredNV[msg.H] {
				nm0(m, n).ignoredNV[msg.H] = msg.V
			}
		}
		for i := range effects {
			e := &effects[i]
			if e.Node == n.Id && isEffect(e) {
				if strings.HasPrefix(d.mustIgn, "invalid-new-view") {
					m.violate("C07", "influenced-by-invalid-new-view", "node %s (h=%d v=%d) was influenced (%s h=%d v=%d) by a NEW_VIEW that is not a valid certificate: %s", n.Id, d.pre.H, d.pre.V, e.Kind, e.H, e.V, d.mustIgn)
					if strings.Contains(d.mustIgn, "authentic distinct votes below quorum weight") {
						// the VIEW_CHANGEs nested in it were counted toward a quorum although those that verify under their claimed senders' keys
						// (distinct committee members, this instance, height and view) do not reach it
						m.violate("C08", "unauthentic-votes-inside-a-new-view-counted", "node %s (h=%d v=%d) was influenced (%s h=%d v=%d) by %s whose embedded VIEW_CHANGEs reach quorum weight only when votes that do not verify under their claimed sender's key (or repeat a sender, or come from outside the committee) are counted", n.Id, d.pre.H, d.pre.V, e.Kind, e.H, e.V, Describe(f))
					}
					break
				}
				m.violate("C08", "effect-of-must-ignore:"+ruleKey(d.mustIgn)+":"+msg.Env.String(), "node %s (h=%d v=%d) was influenced (%s h=%d v=%d) by %s that must be ignored: %s", n.Id, d.pre.H, d.pre.V, e.Kind, e.H, e.V, Describe(f), d.mustIgn)
				break
			}
		}
	}
	// ---- a received PREPARE / COMMIT that leaves the node in its (height, view) must leave that view's election timer alone: a
	// member that keeps sending such messages (one per made-up hash) would otherwise postpone the node's timeout for ever
	if (msg.Env == ref.EnvP || msg.Env == ref.EnvC) && !panicked {
		if nowH, nowV := uint64(n.St.Height()), uint64(n.St.View()); nowH == d.pre.H && nowV == d.pre.V {
			m.Stats["C05 timers judged across a received PREPARE or COMMIT"]++
			for i := range effects {
				e := &effects[i]
				if e.Node == n.Id && (e.Kind == spi.EvRegister || e.Kind == spi.EvStop) {
					for _, p := range []string{"C05", "C12"} {
						m.violate(p, "received-vote-re-armed-the-running-election-timer", "node %s stayed in (h=%d v=%d) while handling %s, yet the election timer of that view was touched (%s h=%d v=%d): its timeout starts over with every such message", n.Id, d.pre.H, d.pre.V, Describe(f), e.Kind, e.H, e.V)
					}
					break
				}
			}
		}
	}
	// ---- a node that has just handled a COMMIT and holds, in its own log, the proposal of (h, v, hash) with its block and COMMITs of
	// quorum weight for it has handed the block to its commit callback (now or earlier), whatever became of its own sends
	// (judged only when this COMMIT reached the point where the node counts its COMMITs — it was handed to the log in this
	// delivery; a proposal that arrives after a quorum of COMMITs is not itself such a point in this library)
	if _, counted := has(effects, n.Id, spi.EvStoreC, msg.H, msg.V, msg.Sender.Id); counted && msg.Env == ref.EnvC && d.mustIgn == "" && !panicked && !d.handoff && d.inComm && d.pre.H == msg.H {
		nm := nm0(m, n)
		k := hvh{msg.H, msg.V, string(msg.Hash)}
		if nm.storedPP[hv{msg.H, msg.V}] == string(msg.Hash) && !nm.blockless[hv{msg.H, msg.V}] && weightOK(m.w.Comm(msg.H), nm.heldC[k]) {
			m.Stats["C05 commit quorums in a node's log judged"]++
			if nm.lastCommitH < int64(msg.H) {
				for _, p := range []string{"C05", "C12"} {
					m.violate(p, "commit-quorum-held-but-not-committed", "node %s holds the proposal of (h=%d v=%d hash=%x) with its block and COMMITs of %v — quorum weight — in its log after handling the COMMIT of %s, and has not handed the block to its commit callback", n.Id, msg.H, msg.V, short(msg.Hash), idsOf(nm.heldC[k]), msg.Sender.Id)
				}
			}
		}
	}
	// ---- C11: honest emissions are accepted by correct peers in a matching state
	if f.Honest && m.JudgeC11 && m.w.IsCorrect(f.From) && d.pre.H == msg.H && d.inComm {
		if d.handoff {
			// the node's timer for its current position has expired (or a sync arrived) and the main loop has acted on it; the
			// worker has not yet: the node has been told to leave the position the stated precondition speaks about
			m.Stats["C11 not judged: trigger or sync between main loop and worker"]++
		} else {
			m.judgeC11(d, effects)
		}
	}
	// ---- election completeness: a leader that now holds stored votes of quorum weight for a view it has not passed
	// becomes leader (sends its NEW_VIEW), unless it already did or already adopted a valid NEW_VIEW of that or a higher view
	if msg.Env == ref.EnvVC && d.mustIgn == "" && d.pre.H == msg.H && d.inComm && !panicked && !d.handoff {
		m.judgeElection(d, effects)
	}
}

func nm0(m *Monitors, n *Node) *nodeMon { return m.node(n.Id) }

func ruleKey(s string) string {
	for i := 0; i < len(s); i++ {
		if s[i] == ':' {
			return s[:i]
		}
	}
	return s
}

func has(effects []spi.Event, node string, kind spi.Kind, h, v uint64, sender string) (*spi.Event, bool) {
	for i := range effects {
		e := &effects[i]
		if e.Node == node && e.Kind == kind && e.H == h && e.V == v && (sender == "" || e.Sender == sender) {
			return e, true
		}
	}
	return nil, false
}

func (m *Monitors) judgeC11(d *deliveryCtx, effects []spi.Event) {
	n, f, msg := d.n, d.f, d.f.Msg
	c := m.w.Comm(msg.H)
	switch msg.Env {
	case ref.EnvNV:
		if d.pre.V <= msg.V && !d.hadPP {
			// a consumer-side rejection of a fresh block is allowed behaviour
			for i := range effects {
				if effects[i].Node == n.Id && effects[i].Kind == spi.EvValidate && !effects[i].Ok {
					m.Stats["C11 NV not judged: consumer rejected block"]++
					return
				}
			}
			m.Stats["C11 judged NEW_VIEW"]++
			_, stored := has(effects, n.Id, spi.EvStorePP, msg.H, msg.V, "")
			nowH, nowV := uint64(n.St.Height()), uint64(n.St.View())
			adopted := stored && (nowH > msg.H || nowV >= msg.V)
			if !adopted {
				m.violate("C11", "honest-new-view-not-adopted", "node %s (view %d) did not adopt NEW_VIEW h=%d v=%d of correct leader %s", n.Id, d.pre.V, msg.H, msg.V, f.From)
			}
		} else {
			m.Stats["C11 NV precondition unmet"]++
		}
	case ref.EnvVC:
		if c.Leader(msg.V) == n.Id && d.pre.V <= msg.V {
			m.Stats["C11 judged VIEW_CHANGE"]++
			if _, ok := has(effects, n.Id, spi.EvStoreVC, msg.H, msg.V, f.From); !ok {
				m.violate("C11", "honest-view-change-not-counted", "leader %s (view %d) did not count VIEW_CHANGE h=%d v=%d of correct node %s (proof=%v block=%v)", n.Id, d.pre.V, msg.H, msg.V, f.From, msg.Vote.Proof != nil, msg.Block != nil)
			}
		} else {
			m.Stats["C11 VC precondition unmet"]++
		}
	case ref.EnvP:
		if d.pre.V <= msg.V {
			m.Stats["C11 judged PREPARE"]++
			if msg.V > d.pre.V {
				m.Stats["C18 role decisions judged for a view ahead of the receiver"]++
			}
			if nm0(m, n).storeRefused[storeKey(spi.EvStoreP, msg.H, msg.V, string(msg.Hash), f.From)] {
				m.violate("C11", "honest-prepare-not-counted", "node %s (view %d): the PREPARE h=%d v=%d of correct node %s was turned down by the node's message log although the log does not hold it", n.Id, d.pre.V, msg.H, msg.V, f.From)
			}
			if _, ok := has(effects, n.Id, spi.EvStoreP, msg.H, msg.V, f.From); !ok {
				m.violate("C11", "honest-prepare-not-counted", "node %s (view %d) did not count PREPARE h=%d v=%d of correct node %s", n.Id, d.pre.V, msg.H, msg.V, f.From)
				if f.From != c.Leader(msg.V) {
					// authentic, in committee, right height, view not stale: the only ground left for refusing a PREPARE is the
					// sender's role, and the sender is not the member at position (view of the PREPARE) mod n
					m.violate("C18", "non-leader-of-the-view-treated-as-its-leader", "node %s (view %d) refused the PREPARE h=%d v=%d of correct member %s as if it led view %d; position v mod n of that view is %s (position of the node's own view: %s)", n.Id, d.pre.V, msg.H, msg.V, f.From, msg.V, c.Leader(msg.V), c.Leader(d.pre.V))
				}
			}
		} else {
			m.Stats["C11 P precondition unmet"]++
		}
	case ref.EnvC:
		m.Stats["C11 judged COMMIT"]++
		if nm0(m, n).storeRefused[storeKey(spi.EvStoreC, msg.H, msg.V, string(msg.Hash), f.From)] {
			m.violate("C11", "honest-commit-not-counted", "node %s: the COMMIT h=%d v=%d of correct node %s was turned down by the node's message log although the log does not hold it", n.Id, msg.H, msg.V, f.From)
		}
		if _, ok := has(effects, n.Id, spi.EvStoreC, msg.H, msg.V, f.From); !ok {
			m.violate("C11", "honest-commit-not-counted", "node %s did not count COMMIT h=%d v=%d of correct node %s", n.Id, msg.H, msg.V, f.From)
		}
	}
}

func (m *Monitors) PostSync(n *Node, pre *deliveryCtx, bh uint64, effects []spi.Event) {
	m.sample(n)
	// C14: the round a node enters by sync above height 1 is never one it may lead as first leader (the new-round callback
	// reports the flag the term was built with); rounds started further down in the same step follow commits and are not judged
	for i := range effects {
		e := &effects[i]
		if e.Node == n.Id && e.Kind == spi.EvNewRound && e.H == bh+1 {
			m.Stats["C14 rounds entered by sync judged"]++
			if e.Ok && e.H > 1 {
				m.violate("C14", "first-leader-in-a-round-entered-by-sync", "node %s entered height %d by a sync with block %d and the round was started with canBeFirstLeader=true", n.Id, e.H, bh)
			}
			break
		}
	}
}
func (m *Monitors) PostTimeout(n *Node, pre *deliveryCtx, h, v uint64, effects []spi.Event) {
	m.sample(n)
}

// OnRecoveredPanic: the worker recovered from a panic while handling the message being delivered.
// Dropping bytes the reference decoder cannot read either is the intended behaviour; a panic while
// handling a message that decodes completely is a defect in the handling code.
func isConsumerPanic(r interface{}) bool {
	if pr, _, ok := leanhelix.VerifFilterPanicOf(r); ok {
		r = pr
	}
	_, ok := r.(spi.ConsumerPanic)
	return ok || strings.Contains(fmt.Sprint(r), "consumer panic:")
}

func (m *Monitors) OnRecoveredPanic(n *Node, r interface{}) {
	if m.probe == nil {
		m.probe = map[string]bool{}
	}
	m.probe[n.Id] = true
	if isConsumerPanic(r) {
		m.Stats["consumer validator panics recovered by the library"]++
		return
	}
	if pr, msg, ok := leanhelix.VerifFilterPanicOf(r); ok {
		// recovered by the height filter: msg is the message that was being processed (the delivered one or a cached one)
		var raw *interfaces.ConsensusRawMessage
		func() {
			defer func() { recover() }()
			raw = msg.ToConsensusRawMessage()
		}()
		if raw != nil {
			if dm, ok := ref.Decode(raw); ok {
				m.violate("C12", "panic-while-handling-well-formed-message:"+panicClass(fmt.Sprint(pr)), "node %s panicked (recovered by the height filter) while handling %s(hdr=%v) h=%d v=%d from %s: %v", n.Id, dm.Env, dm.Type, dm.H, dm.V, dm.Sender.Id, pr)
				return
			}
		}
		m.Stats["C12 malformed messages dropped after a parser panic"]++
		return
	}
	if m.cur != nil && m.cur.f != nil && m.cur.f.Msg != nil {
		m.violate("C12", "panic-while-handling-well-formed-message:"+panicClass(fmt.Sprint(r)), "node %s panicked (recovered by the worker) while handling %s: %v", n.Id, Describe(m.cur.f), r)
		return
	}
	m.Stats["C12 malformed messages dropped after a parser panic"]++
}

func (m *Monitors) OnPanic(n *Node, what string, r interface{}) {
	if isConsumerPanic(r) {
		m.Stats["consumer validator panics that escaped the worker (not judged: the consumer's fault)"]++
		return
	}
	m.violate("C12", "panic:"+panicClass(fmt.Sprint(r)), "node %s panicked in %s: %v", n.Id, what, r)
}

func panicClass(s string) string {
	out := make([]byte, 0, len(s))
	for i := 0; i < len(s); i++ {
		ch := s[i]
		if ch >= '0' && ch <= '9' {
			if len(out) > 0 && out[len(out)-1] == '#' {
				continue
			}
			out = append(out, '#')
			continue
		}
		out = append(out, ch)
	}
	if len(out) > 60 {
		out = out[:60]
	}
	return string(out)
}

// ---------------------------------------------------------------- C13 sampling

func (m *Monitors) sample(n *Node) {
	nm := m.node(n.Id)
	x := n.St.HeightView()
	h, v := uint64(x.Height()), uint64(x.View())
	if nm.sampled {
		if h < nm.lastH || (h == nm.lastH && v < nm.lastV) {
			m.violate("C13", "state-went-backwards", "node %s (h,v) went from (%d,%d) to (%d,%d)", n.Id, nm.lastH, nm.lastV, h, v)
		}
	}
	m.Stats["C13 samples"]++
	if nm.lastRoundH >= 0 && int64(h) != nm.lastRoundH {
		m.violate("C13", "state-height-differs-from-the-last-started-round", "node %s is at height %d but the last new-round callback was for height %d", n.Id, h, nm.lastRoundH)
		m.violate("C17", "height-without-its-term", "node %s: the observable height is %d while the installed term is the one of height %d: messages of height %d now reach a term of another height", n.Id, h, nm.lastRoundH, h)
	}
	nm.lastH, nm.lastV, nm.sampled = h, v, true
	m.judgeFuture(n, nm, h, v)
}

// ---------------------------------------------------------------- online event monitors

func (m *Monitors) OnEvent(e *spi.Event) {
	w := m.w
	if !w.IsCorrect(e.Node) {
		return
	}
	n := w.Nodes[e.Node]
	nm := m.node(e.Node)
	// every SPI call is an observation point of the node's (height, view): what a consumer sees from inside its callbacks
	{
		x := n.St.HeightView()
		h, v := uint64(x.Height()), uint64(x.View())
		if nm.sampled && (h < nm.lastH || (h == nm.lastH && v < nm.lastV)) {
			m.violate("C13", "state-went-backwards", "node %s (h,v) went from (%d,%d) to (%d,%d) (seen from inside the SPI call %s)", n.Id, nm.lastH, nm.lastV, h, v, e.Kind)
		}
		nm.lastH, nm.lastV, nm.sampled = h, v, true
		m.Stats["C13 samples taken inside SPI calls"]++
	}
	switch e.Kind {
	case spi.EvCommit:
		m.onCommit(n, nm, e)
	case spi.EvNewRound:
		m.Stats["C13 rounds"]++
		if int64(e.H) <= nm.lastRoundH {
			m.violate("C13", "round-height-not-increasing", "node %s new-round callback for height %d after round %d", n.Id, e.H, nm.lastRoundH)
		}
		if int64(e.H) <= nm.lastCommitH {
			m.violate("C13", "round-not-above-committed-height", "node %s new-round callback for height %d after commit of %d", n.Id, e.H, nm.lastCommitH)
		}
		nm.lastRoundH = int64(e.H)
	case spi.EvValidate:
		if m.cur != nil && m.cur.f != nil && m.cur.f.Msg != nil && m.cur.f.Msg.H == e.H && (m.cur.f.Msg.Env == ref.EnvPP || m.cur.f.Msg.Env == ref.EnvNV) && string(m.cur.f.Msg.Hash) == e.Hash {
			m.Stats["C18 proposer ids judged"]++
			if want := w.Comm(e.H).Leader(m.cur.f.Msg.V); e.Sender != want {
				m.violate("C18", "wrong-proposer-reported-to-the-validator", "node %s asked ValidateBlockProposal about the proposal of h=%d v=%d naming %q as its proposer; the leader of that view (position v mod n) is %s", n.Id, e.H, m.cur.f.Msg.V, e.Sender, want)
			}
		}
		if e.Ok {
			nm.validated[e.Hash] = true
			if w.Comm(e.H).Has(n.Id) {
				m.approved[fmt.Sprintf("%d|%s", e.H, e.Hash)] = true
			}
		}
	case spi.EvRequestBlock:
		m.minted[e.Hash] = true
		if e.CtxErr {
			m.Stats["C15 blocks minted under cancelled ctx"]++
		}
	case spi.EvStorePP, spi.EvStoreP, spi.EvStoreC, spi.EvStoreVC:
		m.onStore(n, nm, e)
	case spi.EvSend:
		m.onSendEvent(n, nm, e)
	}
}

func (m *Monitors) onCommit(n *Node, nm *nodeMon, e *spi.Event) {
	w := m.w
	m.Stats["commits"]++
	// C13
	if int64(e.H) <= nm.lastCommitH {
		m.violate("C13", "commit-height-not-increasing", "node %s commit callback for height %d after %d", n.Id, e.H, nm.lastCommitH)
	}
	nm.lastCommitH = int64(e.H) // also when the callback fails: the same height must not be passed to it again
	// C15: "a context is never handed out for a (height, view) that has already been superseded" — in this engine steps are atomic,
	// so a commit callback that is entered under an already cancelled context got the context of a height the node's main loop
	// had told it to leave before the worker started handling the message that completed the quorum
	m.Stats["C15 commit-callback contexts judged at entry"]++
	if e.CtxErr {
		m.violate("C15", "commit-callback-for-a-superseded-height", "node %s: the commit callback of height %d was entered with an already cancelled context: the main loop had accepted a sync above that height (contexts cancelled, sync waiting for the worker) before the worker handled the message that completed the COMMIT quorum", n.Id, e.H)
	}
	// C01
	if old, ok := m.decided[e.H]; ok {
		if old != e.Hash {
			m.violate("C01", "fork", "height %d: node %s committed %x but node %s committed %x", e.H, n.Id, short([]byte(e.Hash)), m.decidedBy[e.H], short([]byte(old)))
		} else {
			m.Stats["C01 agreeing commits"]++
		}
	} else {
		m.decided[e.H] = e.Hash
		m.decidedBy[e.H] = n.Id
	}
	// a node that commits has broadcast its own COMMIT for that (view, hash): the peers that accepted the proposal rely on it
	func() {
		defer func() { recover() }()
		br := protocol.BlockProofReader(e.Proof).BlockRef()
		m.Stats["C05 own-commit broadcasts judged"]++
		if nm.sentC[hv{e.H, uint64(br.View())}] != string(br.BlockHash()) {
			m.violate("C05", "committed-without-broadcasting-its-own-commit", "node %s committed height %d with a certificate of view %d but never sent its own COMMIT for that view and block: peers that accepted the proposal and need its weight cannot commit", n.Id, e.H, uint64(br.View()))
		}
	}()
	rec := &CommitRec{Block: e.Block, Proof: e.Proof, Seq: e.Seq}
	n.Commits[e.H] = rec
	if _, ok := w.Canon[e.H]; !ok {
		w.Canon[e.H] = rec
	}
	// C03
	m.judgeC03(n, e)
	// C04
	m.judgeC04(n, e)
}

func (m *Monitors) prevOf(h uint64) (interfaces.Block, []byte, bool) {
	if h <= 1 {
		return nil, nil, true
	}
	c, ok := m.w.Canon[h-1]
	if !ok {
		return nil, nil, false
	}
	return c.Block, c.Proof, true
}

func (m *Monitors) judgeC03(n *Node, e *spi.Event) {
	w := m.w
	prev, prevProof, ok := m.prevOf(e.H)
	if !ok {
		m.Stats["C03 not judged: previous proof unknown"]++
		return
	}
	var other *Node
	for _, id := range w.Order {
		if id != n.Id {
			other = w.Nodes[id]
			break
		}
	}
	if other == nil {
		return
	}
	m.Stats["C03 commits validated on a peer"]++
	if err := other.W.ValidateBlockConsensus(context.Background(), e.Block, e.Proof, prev, prevProof, false); err != nil {
		m.violate("C03", "peer-rejects-committed-pair:"+c03Class(m, e), "height %d: (block,proof) committed by %s rejected by %s: %v", e.H, n.Id, other.Id, err)
	}
	// reference predicate on the same pair, so that a defect in the validator cannot mask a defect in proof assembly
	if why := RefProofCheck(w.Keys, w.Comm(e.H), uint64(spi.InstanceId), e.Block, e.Proof, prevProof, false); why != "" {
		m.violate("C03", "reference-rejects-committed-pair:"+why, "height %d: (block,proof) committed by %s fails the reference certificate check: %s", e.H, n.Id, why)
	}
	// the same proof must not certify another block
	alt := &spi.Blk{H: e.H, Body: "some-other-block"}
	if err := other.W.ValidateBlockConsensus(context.Background(), alt, e.Proof, prev, prevProof, false); err == nil {
		m.violate("C03", "proof-certifies-another-block", "height %d: proof committed by %s also validates another block", e.H, n.Id)
	}
}

func c03Class(m *Monitors, e *spi.Event) string {
	why := RefProofCheck(m.w.Keys, m.w.Comm(e.H), uint64(spi.InstanceId), e.Block, e.Proof, nil, true)
	if why == "" {
		return "unexplained"
	}
	return why
}

// RefProofCheck is the reference COMMIT-certificate predicate (C02/C03). It returns
// "" when (block, proof) is a genuine certificate, else a short reason.
// skipSeed leaves the random-seed clause out (used for classification only).
func RefProofCheck(k *spi.Keys, c *ref.Committee, inst uint64, block *spi.Blk, proofBytes, prevProof []byte, soft bool) (why string) {
	return refProofCheck(k, c, inst, block, proofBytes, prevProof, soft, false)
}

func refProofCheck(k *spi.Keys, c *ref.Committee, inst uint64, block *spi.Blk, proofBytes, prevProof []byte, soft bool, skipSeed bool) (why string) {
	defer func() {
		if r := recover(); r != nil {
			why = "unreadable-proof"
		}
	}()
	if block == nil {
		return "nil-block"
	}
	if len(proofBytes) == 0 {
		return "empty-proof"
	}
	p := protocol.BlockProofReader(proofBytes)
	br := p.BlockRef()
	if br == nil || len(br.Raw()) == 0 {
		return "no-block-ref"
	}
	if br.MessageType() != protocol.LEAN_HELIX_COMMIT {
		return "not-a-commit-certificate"
	}
	if uint64(br.InstanceId()) != inst {
		return "wrong-instance"
	}
	if uint64(br.BlockHeight()) != block.H {
		return "wrong-height"
	}
	if !bytes.Equal(br.BlockHash(), spi.HashOf(block)) {
		return "hash-does-not-commit-to-block"
	}
	var ids []string
	seen := map[string]bool{}
	it := p.NodesIterator()
	for it.HasNext() {
		s := it.NextNodes()
		id := string(s.MemberId())
		if seen[id] {
			return "duplicate-signer"
		}
		seen[id] = true
		if !c.Has(id) {
			return "signer-not-in-committee"
		}
		if !k.VerifyCM(id, block.H, br.Raw(), s.Signature()) {
			return "invalid-commit-signature"
		}
		ids = append(ids, id)
	}
	if c.W.Sign() == 0 {
		return "committee-without-weight" // nobody can certify anything
	}
	if soft {
		if !c.AboveF(ids) {
			return "weight-not-above-f"
		}
	} else if !c.IsQuorum(ids) {
		return "weight-below-quorum"
	}
	var prevSig []byte
	if len(prevProof) > 0 {
		prevSig = protocol.BlockProofReader(prevProof).RandomSeedSignature()
	}
	if !k.VerifyMasterSeedSig(block.H, seedBytes(prevSig), p.RandomSeedSignature()) {
		return "invalid-random-seed-signature"
	}
	return ""
}

func (m *Monitors) judgeC04(n *Node, e *spi.Event) {
	w := m.w
	m.Stats["C04 commits judged"]++
	if e.Block == nil || e.Block.H != e.H {
		m.violate("C04", "committed-block-wrong-height", "node %s committed a block of another height at %d", n.Id, e.H)
		return
	}
	br := protocol.BlockProofReader(e.Proof).BlockRef()
	if !bytes.Equal(br.BlockHash(), spi.HashOf(e.Block)) {
		m.violate("C04", "block-does-not-match-certified-hash", "node %s height %d: block hash differs from the certified hash", n.Id, e.H)
	}
	key := fmt.Sprintf("%d|%s", e.H, e.Hash)
	if !m.approved[key] && !m.minted[e.Hash] {
		m.violate("C04", "committed-block-never-approved", "node %s height %d: committed block %v was approved by no correct member's ValidateBlockProposal", n.Id, e.H, e.Block)
	}
	if e.Block.Bad {
		m.violate("C04", "committed-bad-block", "node %s height %d: committed a block every correct validator rejects", n.Id, e.H)
	}
	// proposed by the legitimate leader of its view
	view := uint64(br.View())
	c := w.Comm(e.H)
	leader := c.Leader(view)
	found := false
	for _, f := range w.Seen {
		msg := f.Msg
		if msg == nil || msg.H != e.H || msg.V != view || msg.Inst != uint64(spi.InstanceId) {
			continue
		}
		if msg.Env == ref.EnvPP && msg.Type == ref.PP && msg.Sender.Id == leader && string(msg.Hash) == e.Hash && w.Keys.VerifyCM(leader, e.H, msg.HdrRaw, msg.Sender.Sig) {
			found = true
			break
		}
		if msg.Env == ref.EnvNV && msg.EmbPP != nil && msg.EmbSig != nil && msg.EmbPP.Type == ref.PP && msg.EmbPP.V == view && msg.EmbPP.H == e.H && msg.EmbSig.Id == leader && string(msg.EmbPP.Hash) == e.Hash && w.Keys.VerifyCM(leader, e.H, msg.EmbPP.Raw, msg.EmbSig.Sig) {
			found = true
			break
		}
	}
	if !found {
		m.violate("C04", "no-proposal-by-legitimate-leader", "node %s height %d view %d: no PREPREPARE for the committed hash signed by leader %s exists in the traffic", n.Id, e.H, view, leader)
	}
}

// ---------------------------------------------------------------- stores (C08a, C07)

func (m *Monitors) onStore(n *Node, nm *nodeMon, e *spi.Event) {
	w := m.w
	if e.Kind == spi.EvStoreP || e.Kind == spi.EvStoreC {
		k := storeKey(e.Kind, e.H, e.V, e.Hash, e.Sender)
		nm.storeTried[k] = true
		if e.Ok {
			nm.storeHeld[k] = true
			if e.Kind == spi.EvStoreC {
				hk := hvh{e.H, e.V, e.Hash}
				if nm.heldC[hk] == nil {
					nm.heldC[hk] = map[string]bool{}
				}
				nm.heldC[hk][e.Sender] = true
			}
		} else if !nm.storeHeld[k] {
			nm.storeRefused[k] = true // the Storage turned down a message it does not hold
		}
	}
	// what the node itself recorded (Storage SPI): basis of "holds a prepared certificate"
	// (a PREPARE the log already holds is evaluated too: the library re-evaluates "prepared" at every PREPARE that arrives, also a
	// repeated one — that is how a leader becomes prepared on PREPAREs that were in its log before it stored its own proposal)
	if (e.Ok || e.Kind == spi.EvStoreP) && (e.Kind == spi.EvStorePP || e.Kind == spi.EvStoreP) {
		if e.Kind == spi.EvStorePP {
			nm.storedPP[hv{e.H, e.V}] = e.Hash
			// (a proposal stored without its block — possible when the consumer's validator does not object to a missing block —
			// can never be prepared: it is not a certificate the node holds)
			if pm, ok := e.Msg.(*interfaces.PreprepareMessage); ok && (pm.Block() == nil || !bytes.Equal(spi.HashOf(pm.Block()), []byte(e.Hash))) {
				nm.blockless[hv{e.H, e.V}] = true
			}
		} else {
			k := hvh{e.H, e.V, e.Hash}
			if nm.storedP[k] == nil {
				nm.storedP[k] = map[string]bool{}
			}
			nm.storedP[k][e.Sender] = true
		}
		// (a leader storing its own proposal evaluates nothing: "prepared" is evaluated when a PREPARE or a leader's proposal
		// arrives — a leader whose own weight reaches the quorum is the recorded C05 finding, not a lock it must carry)
		ownProposal := e.Kind == spi.EvStorePP && e.Sender == n.Id
		// (a stored PREPARE for another hash than the stored proposal's evaluates nothing either: seen as a false alarm in a
		// thorough run — a leader whose own weight is the quorum stored a Byzantine PREPARE for a foreign hash and the monitor
		// took "leader weight + empty set of PREPAREs" for a certificate)
		if hash, ok := nm.storedPP[hv{e.H, e.V}]; ok && !ownProposal && (e.Kind == spi.EvStorePP || e.Hash == hash) && !nm.blockless[hv{e.H, e.V}] && uint64(n.St.Height()) == e.H && uint64(n.St.View()) == e.V {
			c := w.Comm(e.H)
			if weightOK(c, nm.storedP[hvh{e.H, e.V, hash}], c.Leader(e.V)) {
				if nm.heldCert[e.H] == nil {
					nm.heldCert[e.H] = map[uint64]string{}
				}
				nm.heldCert[e.H][e.V] = hash
			}
		}
	}
	if e.Sender == n.Id {
		// own message
		if e.Kind == spi.EvStoreVC && e.Ok {
			k := hv{e.H, e.V}
			if nm.storedVC[k] == nil {
				nm.storedVC[k] = map[string]*interfaces.ViewChangeMessage{}
			}
			nm.storedVC[k][e.Sender] = e.Msg.(*interfaces.ViewChangeMessage)
		}
		return
	}
	m.Stats["C08 stores judged"]++
	nodeH := uint64(n.St.Height())
	c := w.Comm(e.H)
	m.Stats["C17 handled messages judged"]++
	if nm.lastRoundH >= 0 && int64(e.H) != nm.lastRoundH {
		m.violate("C17", "message-handled-by-a-term-of-another-height", "node %s: a %s of height %d was handled although the installed term is the one of height %d", n.Id, e.Kind, e.H, nm.lastRoundH)
	}
	if !c.Has(n.Id) {
		m.violate("C17", "message-reached-protocol-logic-of-a-node-outside-the-committee", "node %s is not in the committee of height %d but a %s of that height reached its protocol logic and was stored", n.Id, e.H, e.Kind)
	}
	bad := func(rule, format string, a ...interface{}) {
		m.violate("C08", "stored:"+rule+":"+e.Kind.String(), "node %s "+format, append([]interface{}{n.Id}, a...)...)
	}
	if e.H != nodeH {
		bad("height-mismatch", "at height %d stored a %s for height %d", nodeH, e.Kind, e.H)
	}
	if !c.Has(e.Sender) {
		bad("sender-not-in-committee", "stored a %s (h=%d v=%d) from %q who is not in the committee", e.Kind, e.H, e.V, e.Sender)
	}
	var hdrRaw, sig []byte
	var typ protocol.MessageType
	var inst uint64
	var want protocol.MessageType
	switch msg := e.Msg.(type) {
	case *interfaces.PreprepareMessage:
		h := msg.Content().SignedHeader()
		hdrRaw, sig, typ, inst, want = h.Raw(), msg.Content().Sender().Signature(), h.MessageType(), uint64(h.InstanceId()), ref.PP
		if e.Sender != c.Leader(e.V) {
			bad("preprepare-not-from-leader", "stored a PREPREPARE (h=%d v=%d) from %q who is not the leader", e.H, e.V, e.Sender)
			m.violate("C18", "proposal-accepted-from-member-at-another-position", "node %s stored the proposal of h=%d v=%d signed by %s; position v mod n is %s", n.Id, e.H, e.V, e.Sender, c.Leader(e.V))
		}
		if e.V > 0 {
			// C07: a proposal of a view above 0 is adopted only on a valid NEW_VIEW
			m.Stats["C07 adoptions judged"]++
			m.needValidNV(n, nm, e.H, e.V, e.Hash, "stored the proposal")
		}
	case *interfaces.PrepareMessage:
		h := msg.Content().SignedHeader()
		hdrRaw, sig, typ, inst, want = h.Raw(), msg.Content().Sender().Signature(), h.MessageType(), uint64(h.InstanceId()), ref.P
		if e.Sender == c.Leader(e.V) {
			bad("prepare-from-leader", "stored a PREPARE (h=%d v=%d) from the leader %q", e.H, e.V, e.Sender)
			m.violate("C18", "leader-of-the-view-treated-as-non-leader", "node %s stored a PREPARE of h=%d v=%d from %s, who is at position v mod n of that view", n.Id, e.H, e.V, e.Sender)
		}
	case *interfaces.CommitMessage:
		h := msg.Content().SignedHeader()
		hdrRaw, sig, typ, inst, want = h.Raw(), msg.Content().Sender().Signature(), h.MessageType(), uint64(h.InstanceId()), ref.C
		if !w.Keys.VerifyShare(e.Sender, e.H, w.SeedBytesFor(n, e.H), msg.Content().Share()) {
			bad("bad-random-seed-share", "stored a COMMIT (h=%d v=%d) from %q with an invalid share", e.H, e.V, e.Sender)
		}
	case *interfaces.ViewChangeMessage:
		h := msg.Content().SignedHeader()
		hdrRaw, sig, typ, inst, want = h.Raw(), msg.Content().Sender().Signature(), h.MessageType(), uint64(h.InstanceId()), ref.VC
		if c.Leader(e.V) != n.Id {
			bad("view-change-not-addressed-to-me", "stored a VIEW_CHANGE (h=%d v=%d) although leader is %q", e.H, e.V, c.Leader(e.V))
			m.violate("C18", "votes-collected-by-member-at-another-position", "node %s counted a VIEW_CHANGE for h=%d v=%d; position v mod n is %s", n.Id, e.H, e.V, c.Leader(e.V))
		}
		vt := ref.VoteOf(msg.Content())
		if vt != nil && !ref.ProofValid(w.Keys, c, uint64(spi.InstanceId), e.H, e.V, vt.Proof) {
			bad("invalid-prepared-proof", "stored a VIEW_CHANGE (h=%d v=%d) from %q whose prepared proof is not valid", e.H, e.V, e.Sender)
		}
		if e.Ok {
			k := hv{e.H, e.V}
			if nm.storedVC[k] == nil {
				nm.storedVC[k] = map[string]*interfaces.ViewChangeMessage{}
			}
			nm.storedVC[k][e.Sender] = msg
		}
	}
	if inst != uint64(spi.InstanceId) {
		bad("wrong-instance", "stored a %s of instance %d", e.Kind, inst)
	}
	if typ != want {
		bad("header-type-differs-from-envelope", "stored a %s whose signed header says %v", e.Kind, typ)
	}
	if !w.Keys.VerifyCM(e.Sender, e.H, hdrRaw, sig) {
		bad("bad-signature", "stored a %s (h=%d v=%d) whose header does not verify under %q", e.Kind, e.H, e.V, e.Sender)
	}
}

func (m *Monitors) needValidNV(n *Node, nm *nodeMon, h, v uint64, hash string, what string) {
	set := nm.validNV[hv{h, v}]
	needsVal, ok := set[hash]
	if !ok && nm.barePP[hvh{h, v, hash}] {
		// recorded known finding: a standalone PREPREPARE of the view's leader is accepted in a view above 0
		m.taint["bare-preprepare"] = true
		m.violate("C07", "adopted-bare-preprepare-in-view-above-0", "node %s %s of (h=%d v=%d hash=%x) on a standalone PREPREPARE of the view's leader, without any NEW_VIEW", n.Id, what, h, v, short([]byte(hash)))
		return
	}
	if !ok {
		m.violate("C07", "acted-in-view-without-valid-new-view", "node %s %s of (h=%d v=%d hash=%x) but no valid NEW_VIEW for it was ever delivered to it", n.Id, what, h, v, short([]byte(hash)))
		return
	}
	if needsVal && !nm.validated[hash] {
		m.violate("C07", "fresh-new-view-proposal-not-validated", "node %s %s of (h=%d v=%d) from a NEW_VIEW without lock, but its validator never approved the block", n.Id, what, h, v)
	}
}

// ---------------------------------------------------------------- sends (C10, C09, C07)

func (m *Monitors) onSendEvent(n *Node, nm *nodeMon, e *spi.Event) {
	w := m.w
	msg, ok := ref.Decode(e.Raw)
	if !ok {
		m.violate("C20", "correct-node-emitted-undecodable-message", "node %s", n.Id)
		return
	}
	m.Stats["sent "+msg.Env.String()]++
	c := w.Comm(msg.H)
	if !c.Has(n.Id) {
		m.violate("C07", "acted-while-outside-the-committee", "node %s is not a member of the committee of height %d but sent %s (view %d)", n.Id, msg.H, msg.Env, msg.V)
		m.violate("C17", "node-outside-the-committee-took-part", "node %s is not a member of the committee of height %d but sent %s (view %d): messages of that height reached a term", n.Id, msg.H, msg.Env, msg.V)
	}
	k := hv{msg.H, msg.V}
	key := hvh{msg.H, msg.V, string(msg.Hash)}
	curV := uint64(n.St.View())
	curH := uint64(n.St.Height())
	once := func(tab map[hv]string, what string) {
		if old, ok := tab[k]; ok && old != string(msg.Hash) {
			m.violate("C10", "equivocation:"+what, "node %s signed two different %s hashes for h=%d v=%d", n.Id, what, msg.H, msg.V)
		}
		tab[k] = string(msg.Hash)
	}
	switch msg.Env {
	case ref.EnvPP:
		m.Stats["C10 proposals judged"]++
		once(nm.sentPP, "PREPREPARE")
		if c.Leader(msg.V) != n.Id {
			m.violate("C10", "proposal-by-non-leader", "node %s sent PREPREPARE h=%d v=%d but the leader is %s", n.Id, msg.H, msg.V, c.Leader(msg.V))
		}
		if msg.H == curH && msg.V < curV {
			m.violate("C10", "proposal-for-old-view", "node %s in view %d sent PREPREPARE for view %d", n.Id, curV, msg.V)
		}
		if msg.V > 0 {
			m.violate("C07", "bare-proposal-in-view-above-0", "node %s sent a bare PREPREPARE for h=%d v=%d", n.Id, msg.H, msg.V)
		}
		nm.proposals[key] = true
	case ref.EnvNV:
		m.Stats["C10 proposals judged"]++
		once(nm.sentPP, "PREPREPARE")
		if c.Leader(msg.V) != n.Id {
			m.violate("C10", "proposal-by-non-leader", "node %s sent NEW_VIEW h=%d v=%d but the leader is %s", n.Id, msg.H, msg.V, c.Leader(msg.V))
			m.violate("C18", "new-view-by-non-leader", "node %s sent NEW_VIEW h=%d v=%d but position v mod n is %s", n.Id, msg.H, msg.V, c.Leader(msg.V))
		}
		if msg.H == curH && msg.V < curV {
			m.violate("C10", "proposal-for-old-view", "node %s in view %d sent NEW_VIEW for view %d", n.Id, curV, msg.V)
		}
		nm.proposals[key] = true
		nm.electedAt[k] = true
		m.judgeOwnNewView(n, nm, msg)
	case ref.EnvP:
		m.Stats["C10 prepares judged"]++
		once(nm.sentP, "PREPARE")
		if c.Leader(msg.V) == n.Id {
			m.violate("C10", "prepare-by-leader", "node %s sent PREPARE h=%d v=%d although it is the leader", n.Id, msg.H, msg.V)
		}
		if !nm.proposals[key] {
			m.violate("C10", "prepare-without-accepted-proposal", "node %s sent PREPARE h=%d v=%d hash=%x but no proposal for it signed by leader %s was delivered to it", n.Id, msg.H, msg.V, short(msg.Hash), c.Leader(msg.V))
		}
		if msg.H == curH && msg.V < curV {
			m.violate("C10", "prepare-for-old-view", "node %s in view %d sent PREPARE for view %d", n.Id, curV, msg.V)
		}
		if msg.V > 0 {
			m.Stats["C07 prepares judged"]++
			m.needValidNV(n, nm, msg.H, msg.V, string(msg.Hash), "sent PREPARE")
		}
		// C04, at the source: a proposal that reached the node as a standalone PREPREPARE is voted for only after this node's
		// validator approved the block (a NEW_VIEW re-proposing a certified block needs no validation: judged by C07)
		if _, viaNV := nm.validNV[hv{msg.H, msg.V}][string(msg.Hash)]; msg.V == 0 || (nm.barePP[key] && !viaNV) {
			m.Stats["C04 votes for standalone proposals judged"]++
			if !nm.validated[string(msg.Hash)] {
				m.violate("C04", "voted-for-a-proposal-its-validator-never-approved", "node %s sent PREPARE h=%d v=%d hash=%x for a proposal that arrived as a PREPREPARE; its ValidateBlockProposal never approved that block", n.Id, msg.H, msg.V, short(msg.Hash))
			}
		}
		if nm.prepares[key] == nil {
			nm.prepares[key] = map[string]bool{}
		}
		nm.prepares[key][n.Id] = true
	case ref.EnvC:
		m.Stats["C10 commits judged"]++
		once(nm.sentC, "COMMIT")
		leader := c.Leader(msg.V)
		prepared := nm.proposals[key] && weightOK(c, nm.prepares[key], leader)
		quorum := weightOK(c, nm.commits[key])
		m.Stats["C06 quorum decisions of the protocol judged"]++
		if !prepared && !quorum && nm.proposals[key] {
			// (the proposal is there: what is missing is weight)
			m.violate("C06", "protocol-counted-a-set-below-quorum-weight-as-a-quorum", "node %s sent COMMIT h=%d v=%d although the senders it can hold for that pair — PREPAREs with the leader %v, COMMITs %v — stay below the quorum weight W-f of committee %v", n.Id, msg.H, msg.V, idsOf(nm.prepares[key]), idsOf(nm.commits[key]), c.Members)
		}
		if !prepared && !quorum {
			m.violate("C10", "commit-without-certificate", "node %s sent COMMIT h=%d v=%d hash=%x holding neither a prepared certificate nor a commit quorum for it (proposal=%v prepares=%d commits=%d)", n.Id, msg.H, msg.V, short(msg.Hash), nm.proposals[key], len(nm.prepares[key]), len(nm.commits[key]))
		}
		if prepared {
			m.Stats["C10 commits by prepared certificate"]++
		} else if quorum {
			m.Stats["C10 commits by commit quorum"]++
		}
		if nm.commits[key] == nil {
			nm.commits[key] = map[string]bool{}
		}
		nm.commits[key][n.Id] = true
	case ref.EnvVC:
		m.Stats["C10 view changes judged"]++
		if last, ok := nm.lastVC[msg.H]; ok && msg.V <= last {
			m.violate("C10", "view-change-views-not-increasing", "node %s sent VIEW_CHANGE h=%d v=%d after v=%d", n.Id, msg.H, msg.V, last)
		}
		nm.lastVC[msg.H] = msg.V
		m.judgeOwnViewChange(n, nm, msg)
		// C18 by behaviour: the vote of view v goes to the member at position v mod n, and that member collects instead of sending
		m.Stats["C18 view change destinations judged"]++
		if len(e.To) != 1 || e.To[0] != c.Leader(msg.V) {
			m.violate("C18", "view-change-sent-to-wrong-leader", "node %s sent VIEW_CHANGE h=%d v=%d to %v, the leader (position v mod n) is %s", n.Id, msg.H, msg.V, e.To, c.Leader(msg.V))
		}
		if c.Leader(msg.V) == n.Id {
			m.violate("C18", "leader-sent-its-vote-away", "node %s is the leader of h=%d v=%d (position v mod n) but sent its VIEW_CHANGE to %v", n.Id, msg.H, msg.V, e.To)
		}
	}
}

// C09(a): a VIEW_CHANGE sent after having been prepared carries the lock.
func (m *Monitors) judgeOwnViewChange(n *Node, nm *nodeMon, msg *ref.Msg) {
	w := m.w
	c := w.Comm(msg.H)
	// (views are compared as unsigned 64-bit values: a prepared view may lie anywhere below the vote's view)
	best, locked := uint64(0), false
	var bestHash string
	// "holding a prepared certificate" is read from the node's own storage record: its stored proposal plus stored PREPAREs of
	// quorum weight while it was in that view. (An earlier version also inferred it from "sent COMMIT for (v, hash) and
	// authentic PREPAREs of quorum weight were delivered to it": a node that had already left view v when those PREPAREs
	// arrived ignores them as stale, commits on a COMMIT quorum, sends its own COMMIT on the way and — if its commit callback
	// fails — later times out without ever having been prepared. Seen as C09 'view-change-lacks-proof' in the workloads with
	// commit-callback failures, which are not C09's; corrected before it could become a false alarm.)
	for v, hash := range nm.heldCert[msg.H] {
		if v < msg.V && (!locked || v > best) {
			best, bestHash, locked = v, hash, true
		}
	}
	p := msg.Vote.Proof
	if !locked {
		if p != nil {
			m.Stats["C09 VC with proof but no observed lock"]++
		}
		return
	}
	m.Stats["C09 locked view changes judged"]++
	if p == nil {
		m.violate("C09", "view-change-lacks-proof", "node %s prepared in view %d but its VIEW_CHANGE h=%d v=%d carries no proof", n.Id, best, msg.H, msg.V)
		return
	}
	// (what the monitor saw the node hold is a lower bound of what it holds: a proof of a later view, still below the vote's, is the
	// node's own newer certificate and is judged by the validity rule below)
	if p.PPRef == nil || p.PPRef.V < best || (p.PPRef.V == best && string(p.PPRef.Hash) != bestHash) {
		m.violate("C09", "view-change-proof-not-highest-prepared", "node %s VIEW_CHANGE h=%d v=%d carries a proof that is not for its highest prepared view %d", n.Id, msg.H, msg.V, best)
	}
	if !ref.ProofValid(w.Keys, c, uint64(spi.InstanceId), msg.H, msg.V, p) {
		m.violate("C09", "view-change-carries-invalid-proof", "node %s VIEW_CHANGE h=%d v=%d carries a proof that fails the reference proof validator", n.Id, msg.H, msg.V)
	}
	if msg.Block == nil || p.PPRef == nil || !bytes.Equal(spi.HashOf(msg.Block), p.PPRef.Hash) {
		m.violate("C09", "view-change-block-does-not-match-proof", "node %s VIEW_CHANGE h=%d v=%d block does not hash to the proof's hash", n.Id, msg.H, msg.V)
	}
}

// C09(b) + C07 (leader side): the NEW_VIEW embeds exactly the counted votes and re-proposes the lock.
func (m *Monitors) judgeOwnNewView(n *Node, nm *nodeMon, msg *ref.Msg) {
	w := m.w
	c := w.Comm(msg.H)
	k := hv{msg.H, msg.V}
	m.Stats["C09 new views judged"]++
	counted := nm.storedVC[k]
	emb := map[string]*ref.Vote{}
	for _, vt := range msg.Votes {
		if vt == nil {
			m.violate("C09", "new-view-embeds-unreadable-vote", "node %s NEW_VIEW h=%d v=%d", n.Id, msg.H, msg.V)
			continue
		}
		if _, dup := emb[vt.Sender.Id]; dup {
			m.violate("C09", "new-view-embeds-duplicate-vote", "node %s NEW_VIEW h=%d v=%d embeds two votes of %s", n.Id, msg.H, msg.V, vt.Sender.Id)
		}
		emb[vt.Sender.Id] = vt
	}
	for id, vt := range emb {
		st, ok := counted[id]
		if !ok {
			m.violate("C09", "new-view-embeds-uncounted-vote", "node %s NEW_VIEW h=%d v=%d embeds a vote of %s it never counted", n.Id, msg.H, msg.V, id)
			continue
		}
		orig := ref.VoteOf(st.Content())
		if !sameVote(orig, vt) {
			m.violate("C09", "new-view-embeds-altered-vote", "node %s NEW_VIEW h=%d v=%d embeds the vote of %s with different content than the one it counted", n.Id, msg.H, msg.V, id)
		}
	}
	for id := range counted {
		if _, ok := emb[id]; !ok {
			m.violate("C09", "new-view-omits-counted-vote", "node %s NEW_VIEW h=%d v=%d omits the counted vote of %s", n.Id, msg.H, msg.V, id)
		}
	}
	// C07 leader side: the votes it relies on are authentic and reach quorum
	var ids []string
	for id, vt := range emb {
		if id == n.Id || ref.VoteAuthentic(w.Keys, c, uint64(spi.InstanceId), msg.H, msg.V, vt) {
			ids = append(ids, id)
		}
	}
	m.Stats["C07 leader proposals judged"]++
	m.Stats["C06 quorum decisions of the protocol judged"]++
	if !c.IsQuorum(ids) {
		m.violate("C06", "protocol-counted-a-set-below-quorum-weight-as-a-quorum", "node %s announced view %d of height %d on the votes of %v, whose weight is below the quorum weight W-f of committee %v", n.Id, msg.V, msg.H, ids, c.Members)
		m.violate("C07", "leader-proposed-without-quorum-of-votes", "node %s sent NEW_VIEW h=%d v=%d without authentic votes of quorum weight", n.Id, msg.H, msg.V)
	}
	// proposal = block of highest-view proof among the votes; fresh only if none carries a proof
	bestV, anyProof := uint64(0), false
	var bestHash []byte
	for _, vt := range emb {
		if vt.Proof != nil && vt.Proof.PPRef != nil && (!anyProof || vt.Proof.PPRef.V > bestV) {
			bestV, bestHash, anyProof = vt.Proof.PPRef.V, vt.Proof.PPRef.Hash, true
		}
	}
	// C07, leader side: "proposes the block certified by the highest valid prepared proof among those votes"
	lockV, lockHash, haveLock := uint64(0), []byte(nil), false
	for id, vt := range emb {
		if (id == n.Id || ref.VoteAuthentic(w.Keys, c, uint64(spi.InstanceId), msg.H, msg.V, vt)) && vt.Proof != nil && vt.Proof.PPRef != nil && ref.ProofValid(w.Keys, c, uint64(spi.InstanceId), msg.H, msg.V, vt.Proof) {
			if !haveLock || vt.Proof.PPRef.V > lockV {
				lockV, lockHash, haveLock = vt.Proof.PPRef.V, vt.Proof.PPRef.Hash, true
			}
		}
	}
	if haveLock {
		m.Stats["C07 leader proposals with a certified block judged"]++
		if !bytes.Equal(lockHash, msg.Hash) {
			m.violate("C07", "leader-proposal-is-not-the-certified-block", "node %s sent NEW_VIEW h=%d v=%d proposing %x although a vote it embeds carries a valid prepared proof (view %d) for %x", n.Id, msg.H, msg.V, short(msg.Hash), lockV, short(lockHash))
		}
	}
	if anyProof {
		m.Stats["C09 new views re-proposing a lock"]++
		if !bytes.Equal(bestHash, msg.Hash) {
			if m.minted[string(msg.Hash)] {
				m.violate("C09", "new-view-fresh-block-despite-proof", "node %s NEW_VIEW h=%d v=%d proposes a fresh block although an embedded vote carries a proof (view %d)", n.Id, msg.H, msg.V, bestV)
			} else {
				m.violate("C09", "new-view-not-highest-prepared-block", "node %s NEW_VIEW h=%d v=%d does not propose the block of the highest-view proof (view %d)", n.Id, msg.H, msg.V, bestV)
			}
		}
	} else if !m.minted[string(msg.Hash)] {
		m.violate("C09", "new-view-proposal-of-unknown-origin", "node %s NEW_VIEW h=%d v=%d carries no proof but its proposal was not freshly requested", n.Id, msg.H, msg.V)
		// C07, leader side: "... the block certified by the highest valid prepared proof among those votes, or a fresh block if none carries a proof"
		m.violate("C07", "leader-proposal-neither-certified-nor-fresh", "node %s sent NEW_VIEW h=%d v=%d proposing %x: none of the votes it embeds carries a prepared proof, and the block was not obtained from RequestNewBlockProposal either", n.Id, msg.H, msg.V, short(msg.Hash))
	}
	if msg.Block == nil || !bytes.Equal(spi.HashOf(msg.Block), msg.Hash) {
		m.violate("C09", "new-view-block-does-not-match-proposal", "node %s NEW_VIEW h=%d v=%d attached block does not hash to the proposed hash", n.Id, msg.H, msg.V)
	}
}

func sameVote(a, b *ref.Vote) bool {
	if a == nil || b == nil {
		return a == b
	}
	if a.Type != b.Type || a.Inst != b.Inst || a.H != b.H || a.V != b.V || a.Sender.Id != b.Sender.Id || !bytes.Equal(a.Sender.Sig, b.Sender.Sig) {
		return false
	}
	if (a.Proof == nil) != (b.Proof == nil) {
		return false
	}
	if a.Proof == nil {
		return true
	}
	pa, pb := a.Proof, b.Proof
	if !sameRef(pa.PPRef, pb.PPRef) || !sameRef(pa.PRef, pb.PRef) || len(pa.PSenders) != len(pb.PSenders) {
		return false
	}
	if (pa.PPSender == nil) != (pb.PPSender == nil) || (pa.PPSender != nil && (pa.PPSender.Id != pb.PPSender.Id || !bytes.Equal(pa.PPSender.Sig, pb.PPSender.Sig))) {
		return false
	}
	for i := range pa.PSenders {
		if pa.PSenders[i].Id != pb.PSenders[i].Id || !bytes.Equal(pa.PSenders[i].Sig, pb.PSenders[i].Sig) {
			return false
		}
	}
	return true
}

func sameRef(a, b *ref.Ref) bool {
	if a == nil || b == nil {
		return a == b
	}
	return a.Type == b.Type && a.Inst == b.Inst && a.H == b.H && a.V == b.V && bytes.Equal(a.Hash, b.Hash)
}

// Finish runs the end-of-case checks.
func (m *Monitors) Finish() {}

// forky: some height saw two different correctly signed leader proposals.
func (m *Monitors) forky() bool {
	seen := map[uint64]map[string]bool{}
	for _, f := range m.w.Seen {
		if f.Msg == nil || (f.Msg.Env != ref.EnvPP && f.Msg.Env != ref.EnvNV) {
			continue
		}
		if seen[f.Msg.H] == nil {
			seen[f.Msg.H] = map[string]bool{}
		}
		seen[f.Msg.H][string(f.Msg.Hash)] = true
	}
	for _, s := range seen {
		if len(s) >= 2 {
			return true
		}
	}
	return false
}

// multiView: correct nodes committed one height with certificates of different views.
func (m *Monitors) multiView() bool {
	views := map[uint64]map[uint64]bool{}
	for _, id := range m.w.Order {
		for h, c := range m.w.Nodes[id].Commits {
			if views[h] == nil {
				views[h] = map[uint64]bool{}
			}
			views[h][uint64(protocol.BlockProofReader(c.Proof).BlockRef().View())] = true
		}
	}
	for _, s := range views {
		if len(s) >= 2 {
			return true
		}
	}
	return false
}

func (m *Monitors) judgeElection(d *deliveryCtx, effects []spi.Event) {
	n, msg := d.n, d.f.Msg
	nm := m.node(n.Id)
	c := m.w.Comm(msg.H)
	k := hv{msg.H, msg.V}
	if c.Leader(msg.V) != n.Id || d.pre.V > msg.V || uint64(n.St.Height()) != msg.H {
		return
	}
	if _, stored := has(effects, n.Id, spi.EvStoreVC, msg.H, msg.V, ""); !stored {
		return
	}
	var ids []string
	for id := range nm.storedVC[k] {
		ids = append(ids, id)
	}
	if !c.IsQuorum(ids) {
		return
	}
	// already leader of this or a higher view, or follower of a valid NEW_VIEW of this or a higher view
	for kk := range nm.electedAt {
		if kk.H == msg.H && kk.V >= msg.V {
			return
		}
	}
	for kk := range nm.validNV {
		if kk.H == msg.H && kk.V >= msg.V {
			if _, acted := nm.storedPP[kk]; acted {
				return
			}
		}
	}
	m.Stats["C11 elections judged"]++
	// a consumer may legitimately be slow / cancelled only in rt; in sim the proposal request returns at once
	m.violate("C11", "leader-with-quorum-of-votes-not-elected", "node %s holds stored VIEW_CHANGE votes of quorum weight for h=%d v=%d (it is that view's leader, its view was %d) but did not send a NEW_VIEW", n.Id, msg.H, msg.V, d.pre.V)
	if iv, ok := nm.ignoredNV[msg.H]; ok && iv >= msg.V {
		m.violate("C08", "must-ignore-new-view-suppressed-a-later-election", "node %s was earlier sent a NEW_VIEW for view %d that must be ignored; now its own election for view %d (authentic votes of quorum weight) does not happen", n.Id, iv, msg.V)
	}
}

// probeStorage: a panic that the worker or the height filter recovered from must not leave the node's message storage
// locked (a lock taken without a deferred unlock stays taken when the code under it panics; the next access then blocks the
// worker for good). Every accessor of the Storage SPI is called from a helper goroutine; one that has not returned after
// 10 s (its normal cost is nanoseconds) is reported and the node is taken out of the schedule, since the next delivery
// would hang the worker.
func (m *Monitors) probeStorage(n *Node) {
	m.Stats["C12 storage probes after a recovered panic"]++
	done := make(chan struct{})
	h := primitivesH(uint64(n.St.Height()))
	go func() {
		defer close(done)
		defer func() { recover() }()
		st := n.Store.Storage
		st.GetLatestPreprepare(h)
		st.GetPreprepareMessage(h, 0)
		st.GetPrepareSendersIds(h, 0, nil)
		st.GetCommitSendersIds(h, 0, nil)
		st.GetViewChangeMessages(h, 0)
	}()
	select {
	case <-done:
	case <-time.After(10 * time.Second):
		n.Wedged = true
		m.w.Aborted = true
		m.violate("C12", "storage-left-locked-by-a-recovered-panic", "node %s: after a panic that the worker recovered from, the accessors of its message storage do not return (10 s): the lock is still held, the next message that touches the storage blocks the worker for good", n.Id)
	}
}

func idsOf(set map[string]bool) []string {
	var l []string
	for id := range set {
		l = append(l, id)
	}
	sort.Strings(l)
	return l
}
