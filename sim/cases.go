package sim

import (
	"context"
	"crypto/sha256"
	"encoding/binary"
	"fmt"
	"math/big"
	"math/rand"
	"sort"

	"github.com/orbs-network/lean-helix-go/services/interfaces"
	"github.com/orbs-network/lean-helix-go/spec/types/go/primitives"

	"verif/ref"
	"verif/spi"
)

// SeedFor derives the PRNG seed of one case from (VERIF_SEED, workload name, case index).
func SeedFor(seed int64, workload string, idx int) int64 {
	h := sha256.Sum256([]byte(fmt.Sprintf("%d|%s|%d", seed, workload, idx)))
	return int64(binary.LittleEndian.Uint64(h[:8]) >> 1)
}

// Profile tunes one case.
type Profile struct {
	Workload          string
	Adversary         bool // Byzantine members active
	MaxSteps          int
	MaxH              uint64
	MinN, MaxN        int
	Tail              bool   // run the stabilised tail after the random prefix (C05)
	TailQuiet         bool   // the adversary is silent in the tail
	TailProp          string // property under which tail violations are reported (default C05)
	CommitFailures    bool   // one node's commit callback fails at PRNG-determined heights
	SyncPct           int    // node-sync steps per hundred (0: default 0..2)
	ReverseToLaggers  bool   // messages of a height a node has not reached yet are sometimes handed to it COMMITs first, proposal last
	CommErrors        bool   // the transport sometimes reports an error for a send that went out
	CommitteeErrors   bool   // a committee request fails once in a while (the library retries after 200 ms of real time: used sparingly)
	SplitHandoff      bool   // model the main-loop -> worker hand-off of syncs and election triggers as two separate steps
	SplitPct          int    // ... in this percentage of the cases only
	LenientValidators bool   // in a third of the cases the consumers' validators do not object to a missing block
	NoRejects         bool   // correct validators never reject good blocks
	NilBlocks         bool   // one node's block factory now and then returns no block under a live context (before stabilisation, strict validators only)
	ProoflessSyncs    bool   // one node's syncs come without the proof of the synced block half of the time (UpdateState(block, nil))
	HonestOnly        bool   // no Byzantine ids at all
	KeepTrace         bool
	AdvWeights        map[string]int // optional strategy weights override
}

// GenConfig draws committees, weights, leader orders and the Byzantine set.
func GenConfig(rng *rand.Rand, p *Profile) *CaseConfig {
	n := p.MinN + rng.Intn(p.MaxN-p.MinN+1)
	cfg := &CaseConfig{Committees: map[uint64][]interfaces.CommitteeMember{}, Byz: map[string]bool{}, Outsiders: map[string]bool{}, MaxH: p.MaxH}
	// the parallel instance that shares the member keys: usually id 8, sometimes a boundary id (0, 2^64-1) or the neighbour of ours
	cfg.OtherInst = []uint64{8, 8, 8, 0, ^uint64(0), uint64(spi.InstanceId) + 1, uint64(spi.InstanceId) - 1, 0}[rng.Intn(8)]
	cfg.otherInstZero = cfg.OtherInst == 0
	ids := make([]string, n)
	for i := range ids {
		ids[i] = fmt.Sprintf("nd%02d", i) // four bytes, the first three shared by up to ten members
	}
	cfg.Universe = append(cfg.Universe, ids...)
	for i := 0; i < 2; i++ {
		o := fmt.Sprintf("nd0%c", 'x'+i) // outsiders share the first three bytes with the members nd00..nd09
		cfg.Universe = append(cfg.Universe, o)
		cfg.Outsiders[o] = true
	}
	shape := rng.Intn(5)
	if n <= 5 && rng.Intn(12) == 0 {
		shape = 5 // weights so large that the total exceeds 2^63 (it still fits 64 bits)
	}
	zeroes := 0
	if rng.Intn(5) == 0 {
		zeroes = 1 + rng.Intn(3)
	}
	weightsFor := func() []uint64 {
		ws := make([]uint64, n)
		for i := range ws {
			switch shape {
			case 0:
				ws[i] = 1
			case 1:
				ws[i] = uint64(1 + rng.Intn(5))
			case 2: // one heavy member
				ws[i] = 1
			case 3: // skewed
				ws[i] = uint64(1 + rng.Intn(3)*rng.Intn(4))
			case 4: // large near-equal
				ws[i] = uint64(1000 + rng.Intn(3))
			case 5:
				ws[i] = 3<<60 + uint64(rng.Intn(4))
			}
		}
		if shape == 2 {
			ws[rng.Intn(n)] = uint64(n/2 + rng.Intn(n))
		}
		if zeroes > 0 && n >= 5 {
			// members without any weight: they hold a seat in the leader rotation and may vote, but add nothing to any threshold
			for k, i := range rng.Perm(n) {
				if k < zeroes && k < n-4 {
					ws[i] = 0
				}
			}
		}
		return ws
	}
	base := weightsFor()
	perHeight := rng.Intn(3) == 0
	for h := uint64(1); h <= p.MaxH+1; h++ {
		ws := base
		if perHeight {
			ws = weightsFor()
		}
		order := rng.Perm(n)
		if rng.Intn(4) == 0 {
			order = make([]int, n)
			for i := range order {
				order[i] = i
			}
		}
		var cm []interfaces.CommitteeMember
		for _, i := range order {
			cm = append(cm, interfaces.CommitteeMember{Id: primitives.MemberId(ids[i]), Weight: primitives.MemberWeight(ws[i])})
		}
		cfg.Committees[h] = cm
	}
	// sometimes one member sits out the committee of the later heights (it runs an out-of-committee term there and moves on by node sync only)
	if n >= 5 && rng.Intn(5) == 0 {
		oi := rng.Intn(n)
		out := ids[oi]
		last := p.MaxH + 1
		if oi%2 == 0 {
			last = 2 // ... or of height 2 only: it is a member again from height 3 on
		}
		for h := uint64(2); h <= last; h++ {
			var cm []interfaces.CommitteeMember
			for _, m := range cfg.Committees[h] {
				if string(m.Id) != out {
					cm = append(cm, m)
				}
			}
			cfg.Committees[h] = cm
		}
	}
	if p.HonestOnly {
		return cfg
	}
	// Byzantine set: weight <= f at every height's committee
	perm := rng.Perm(n)
	want := rng.Intn(4) // 0: none ... up to as many as fit
	if p.Adversary && want == 0 {
		want = 1
	}
	fits := func(set map[string]bool) bool {
		for h := uint64(1); h <= p.MaxH+1; h++ {
			c := ref.NewCommittee(cfg.Committees[h])
			var l []string
			for id := range set {
				l = append(l, id)
			}
			if c.Weight(l).Cmp(c.F) > 0 {
				return false
			}
		}
		return true
	}
	if want > 0 {
		// prefer the leaders of the first views (that is where attacks start)
		if rng.Intn(2) == 0 {
			first := string(cfg.Committees[1][rng.Intn(2)].Id)
			cfg.Byz[first] = true
			if !fits(cfg.Byz) {
				delete(cfg.Byz, first)
			}
		}
		for _, i := range perm {
			if len(cfg.Byz) >= want+1 && rng.Intn(2) == 0 {
				break
			}
			cfg.Byz[ids[i]] = true
			if !fits(cfg.Byz) {
				delete(cfg.Byz, ids[i])
			}
		}
	}
	return cfg
}

func (c *CaseConfig) Describe() map[string]interface{} {
	out := map[string]interface{}{"maxHeight": c.MaxH}
	var byz []string
	for id := range c.Byz {
		byz = append(byz, id)
	}
	sort.Strings(byz)
	out["byzantine"] = byz
	cm := map[string]interface{}{}
	for h, m := range c.Committees {
		var l []string
		for _, x := range m {
			l = append(l, fmt.Sprintf("%s:%d", string(x.Id), uint64(x.Weight)))
		}
		cm[fmt.Sprint(h)] = l
	}
	out["committees"] = cm
	return out
}

// Result of one case.
type Result struct {
	Case        int
	Seed        int64
	Steps       int
	Viol        []Violation
	Stats       map[string]int
	Cfg         *CaseConfig
	Trace       []StepRec
	Sched       [32]byte // hash of the schedule
	StateSet    map[[16]byte]bool
	Commits     int
	Forky       bool // >= 2 distinct proposals seen at some height
	MultiView   bool // correct nodes committed one height in different views
	ByzWeightOK bool
	TailViews   int
}

// sched holds the per-case network behaviour.
type sched struct {
	pDrop, pDup, pTimeout, pSync, pAdv int
	partition                          map[string]int // node -> side; messages across sides are held back while partitioned
	partUntil                          int
	starve                             string
	starveUntil                        int
	proofless                          string // this node's syncs sometimes come without the proof of the synced block
}

// RunCase executes one case of a workload.
func RunCase(seed int64, p *Profile, idx int) *Result {
	cs := SeedFor(seed, p.Workload, idx)
	rng := rand.New(rand.NewSource(cs))
	cfg := GenConfig(rng, p)
	w := NewWorld(cfg, rng)
	w.KeepTrace = p.KeepTrace
	w.SplitHandoff = p.SplitHandoff || (p.SplitPct > 0 && rng.Intn(100) < p.SplitPct)
	w.ReverseToLaggers = p.ReverseToLaggers
	res := &Result{Case: idx, Seed: cs, Cfg: cfg, StateSet: map[[16]byte]bool{}}
	adv := NewAdversary(w, p)
	// consumer-side rejections of good blocks (allowed behaviour)
	if !p.NoRejects && rng.Intn(4) == 0 {
		for _, id := range w.Order {
			if rng.Intn(3) == 0 {
				w.Nodes[id].BU.RejectBody = map[string]bool{}
				victim := w.Order[rng.Intn(len(w.Order))]
				for k := 1; k <= 3; k++ {
					w.Nodes[id].BU.RejectBody[fmt.Sprintf("by-%s-%d", victim, k)] = true
				}
			}
		}
	}
	if p.CommErrors && rng.Intn(2) == 0 {
		pct := 3 + rng.Intn(12)
		for _, id := range w.Order {
			w.Nodes[id].Comm.FailSend = func() bool { return rng.Intn(100) < pct }
		}
	}
	if p.CommitteeErrors && rng.Intn(25) == 0 {
		n := w.Nodes[w.Order[rng.Intn(len(w.Order))]]
		left := 1
		n.Mem.OnRequest = func(ctx context.Context, h uint64) error {
			if h >= 2 && left > 0 {
				left--
				w.Mon.Stats["committee request failed once"]++
				return fmt.Errorf("committee contract temporarily unavailable")
			}
			return nil
		}
	}
	if p.LenientValidators && rng.Intn(3) == 0 {
		for _, id := range w.Order {
			w.Nodes[id].BU.AcceptNilBlock = true
		}
	}
	if p.NilBlocks && rng.Intn(3) == 0 {
		strict := true
		for _, id := range w.Order {
			strict = strict && !w.Nodes[id].BU.AcceptNilBlock
		}
		if strict {
			nb := w.Nodes[w.Order[rng.Intn(len(w.Order))]]
			left := 1 + rng.Intn(2)
			nb.BU.NilLive = func(h uint64) bool {
				if w.GST || left == 0 || rng.Intn(3) != 0 {
					return false
				}
				left--
				w.Mon.Stats["block factory returned no block under a live context"]++
				return true
			}
		}
	}
	if p.CommitFailures && rng.Intn(2) == 0 {
		fn := w.Nodes[w.Order[rng.Intn(len(w.Order))]]
		salt := rng.Intn(1000)
		fn.FailCommit = func(h uint64) bool { return (int(h)*7+salt)%3 == 0 }
		fn.PanicCommit = salt%4 == 0 // the consumer's callback panics instead of returning an error
	}
	s := &sched{pDrop: rng.Intn(12), pDup: rng.Intn(10), pTimeout: 1 + rng.Intn(8), pSync: rng.Intn(3)}
	if p.CommitFailures {
		s.pSync = 2 + rng.Intn(6)
	}
	if p.SyncPct > 0 {
		s.pSync = p.SyncPct/2 + rng.Intn(p.SyncPct+1)
	}
	if p.Adversary {
		s.pAdv = 5 + rng.Intn(25)
	}
	if rng.Intn(3) == 0 { // a partition that heals
		s.partition = map[string]int{}
		for _, id := range w.Order {
			s.partition[id] = rng.Intn(2)
		}
		s.partUntil = p.MaxSteps/4 + rng.Intn(p.MaxSteps/2)
	}
	if p.ProoflessSyncs {
		s.proofless = w.Order[rng.Intn(len(w.Order))]
	}
	if rng.Intn(5) == 0 {
		s.starve = w.Order[rng.Intn(len(w.Order))]
		s.starveUntil = p.MaxSteps/3 + rng.Intn(p.MaxSteps/2)
	}
	w.Start()
	hasher := sha256.New()
	step := 0
	for ; step < p.MaxSteps; step++ {
		lo, _ := w.Heights()
		if lo > cfg.MaxH || w.Aborted {
			break
		}
		kind := w.randomStep(s, adv, step)
		hasher.Write([]byte(kind))
		if step%8 == 0 {
			res.StateSet[w.abstractState()] = true
		}
	}
	res.Steps = step
	w.DrainPending()
	w.SplitHandoff = false
	if p.Tail && !w.Aborted {
		RunTail(w, adv, p, res)
	}
	w.Mon.Finish()
	for _, id := range w.Order {
		w.Nodes[id].W.VerifObserveRecoveredPanics(nil) // the hook registry must not keep this world alive
	}
	copy(res.Sched[:], hasher.Sum(nil))
	res.Viol = w.Mon.Viol
	res.Stats = w.Mon.Stats
	res.Trace = w.Trace
	res.Commits = w.Mon.Stats["commits"]
	res.Forky = w.Mon.forky()
	res.MultiView = w.Mon.multiView()
	return res
}

func (w *World) deliverable(s *sched, f *Flight, step int) bool {
	if f.Msg != nil && f.Msg.H > w.Cfg.MaxH {
		return true // will be discarded
	}
	if s.partition != nil && step < s.partUntil {
		a, aok := s.partition[f.From]
		b, bok := s.partition[f.To]
		if aok && bok && a != b {
			return false
		}
	}
	if s.starve != "" && step < s.starveUntil && f.To == s.starve {
		return false
	}
	return true
}

// randomStep performs one scheduler step and returns a short tag of what it did.
func (w *World) randomStep(s *sched, adv *Adversary, step int) string {
	r := w.Rng
	if w.SplitHandoff {
		// a node whose main loop already handled a sync / trigger that its worker has not taken yet: messages that
		// were queued for the worker before are handled first (the window in which a round start meets cancelled contexts)
		for _, id := range w.Order {
			n := w.Nodes[id]
			if n.handSync != nil && r.Intn(2) == 0 {
				// the worker holds a dequeued sync: the main loop handles a newer one first
				if c := w.newestCanon(); c != nil {
					w.SyncNode(n, c.Block, c.Proof)
					return "sn" + id
				}
			}
			if (n.pendSync != nil || n.pendTrig != nil) && r.Intn(2) == 0 {
				for i, f := range w.Pool {
					if f.To == id && (f.Msg == nil || f.Msg.H <= w.Cfg.MaxH) {
						w.TakeFlight(i)
						w.Deliver(f)
						w.Mon.Stats["delivered"]++
						w.Mon.Stats["delivered inside a hand-off window"]++
						return "mw" + id
					}
				}
			}
		}
	}
	if w.ReverseToLaggers && r.Intn(12) == 0 {
		// a lagging node gets what is in flight for a higher height in reverse protocol order (its future cache fills COMMITs first)
		id := w.Order[r.Intn(len(w.Order))]
		n := w.Nodes[id]
		nh := uint64(n.St.Height())
		did := false
		for _, env := range []ref.Env{ref.EnvC, ref.EnvP, ref.EnvNV, ref.EnvPP} {
			for i := 0; i < len(w.Pool); i++ {
				f := w.Pool[i]
				if f.To == id && f.Msg != nil && f.Msg.Env == env && f.Msg.H == nh+1 && f.Msg.H <= w.Cfg.MaxH {
					w.TakeFlight(i)
					i--
					w.Deliver(f)
					w.Mon.Stats["delivered"]++
					did = true
				}
			}
		}
		if did {
			w.Mon.Stats["reverse-order batches to laggers"]++
			return "rv" + id
		}
	}
	if w.SplitHandoff && r.Intn(4) == 0 {
		n := w.Nodes[w.Order[r.Intn(len(w.Order))]]
		if n.pendSync != nil || n.pendTrig != nil || n.handSync != nil {
			if (n.pendSync != nil || n.handSync != nil) && (n.pendTrig == nil || r.Intn(2) == 0) {
				w.WorkerTakeSync(n)
				return "ws" + n.Id
			}
			w.WorkerTakeTrigger(n)
			return "wt" + n.Id
		}
	}
	roll := r.Intn(100)
	if roll < s.pAdv && adv != nil && adv.Active() {
		return "a" + adv.Step()
	}
	roll = r.Intn(100)
	if roll < s.pSync && len(w.Canon) > 0 {
		n := w.Nodes[w.Order[r.Intn(len(w.Order))]]
		var hs []uint64
		for h := range w.Canon {
			hs = append(hs, h)
		}
		sort.Slice(hs, func(i, j int) bool { return hs[i] < hs[j] })
		h := hs[r.Intn(len(hs))]
		c := w.Canon[h]
		if n.Id == s.proofless && r.Intn(2) == 0 {
			w.Mon.Stats["syncs without the proof of the synced block"]++
			w.SyncNode(n, c.Block, nil)
			return fmt.Sprintf("s%s%d-", n.Id, h)
		}
		w.SyncNode(n, c.Block, c.Proof)
		return fmt.Sprintf("s%s%d", n.Id, h)
	}
	// candidates
	var cand []int
	for i, f := range w.Pool {
		if w.deliverable(s, f, step) {
			cand = append(cand, i)
			if len(cand) > 64 {
				break
			}
		}
	}
	if roll < s.pSync+s.pTimeout || len(cand) == 0 {
		n := w.Nodes[w.Order[r.Intn(len(w.Order))]]
		if uint64(n.St.Height()) <= w.Cfg.MaxH {
			if w.Timeout(n) {
				w.Mon.Stats["timeouts"]++
				return "t" + n.Id
			}
		}
		if len(cand) == 0 {
			return "-"
		}
	}
	ci := r.Intn(len(cand))
	if r.Intn(3) == 0 {
		ci = 0
	}
	f := w.TakeFlight(cand[ci])
	if f.Msg != nil && f.Msg.H > w.Cfg.MaxH {
		return "x"
	}
	if r.Intn(100) < s.pDrop && !w.GST {
		w.Mon.Stats["dropped"]++
		w.trace("drop", f.To, f.From, "")
		return "d"
	}
	if r.Intn(100) < s.pDup {
		w.Pool = append(w.Pool, f)
		w.Mon.Stats["duplicated"]++
	}
	w.Deliver(f)
	w.Mon.Stats["delivered"]++
	if f.Msg != nil {
		return fmt.Sprintf("m%s>%s:%d.%d.%d", f.From, f.To, f.Msg.Env, f.Msg.H, f.Msg.V)
	}
	return "m?"
}

// abstractState hashes the observable global state (per node height, view, stored-message counts, commits).
func (w *World) abstractState() [16]byte {
	h := sha256.New()
	for _, id := range w.Order {
		n := w.Nodes[id]
		x := n.St.HeightView()
		fmt.Fprintf(h, "%s:%d.%d.%d|", id, x.Height(), x.View(), len(n.Commits))
		nm := w.Mon.node(id)
		fmt.Fprintf(h, "%d.%d.%d.%d;", len(nm.sentP), len(nm.sentC), len(nm.lastVC), len(nm.sentPP))
	}
	var out [16]byte
	copy(out[:], h.Sum(nil))
	return out
}

// ByzWeightOK re-asserts the case construction: Byzantine weight <= f at every height.
func (w *World) ByzWeightOK() bool {
	for h := uint64(1); h <= w.Cfg.MaxH+1; h++ {
		c := w.Comm(h)
		var l []string
		for id := range w.Cfg.Byz {
			l = append(l, id)
		}
		if c.Weight(l).Cmp(c.F) > 0 {
			return false
		}
	}
	return true
}

var _ = big.NewInt

func (w *World) newestCanon() *CommitRec {
	var best *CommitRec
	for _, c := range w.Canon {
		if best == nil || c.Block.H > best.Block.H {
			best = c
		}
	}
	return best
}
