package sim

import (
	"github.com/orbs-network/lean-helix-go/spec/types/go/protocol"

	"verif/ref"
	"verif/spi"
)

// RunTail is the stabilised tail of a case (C05): from now on every in-flight
// message is delivered before the next virtual election timer expires, timers
// expire in virtual-time order (base*2^view after arming), nothing is dropped,
// and the adversary keeps sending. Two view-bounded obligations are judged:
// progress and completeness (see DESIGN.md, C05).
func RunTail(w *World, adv *Adversary, p *Profile, res *Result) {
	m := w.Mon
	prop := "C05"
	if p.TailProp != "" {
		prop = p.TailProp
	}
	_, hi := w.Heights()
	if hi > w.Cfg.MaxH || hi == 0 {
		m.Stats["C05 not judged: every explored height already decided"]++
		return
	}
	// laggards are brought to the highest height by node sync (the environment's job, not consensus')
	for _, id := range w.Order {
		n := w.Nodes[id]
		if uint64(n.St.Height()) < hi {
			if c, ok := w.Canon[hi-1]; ok {
				w.SyncNode(n, c.Block, c.Proof)
			}
		}
	}
	H := hi
	var deciding []*Node
	var ids []string
	for _, id := range w.Order {
		n := w.Nodes[id]
		if uint64(n.St.Height()) == H && w.Comm(H).Has(id) {
			deciding = append(deciding, n)
			ids = append(ids, id)
		}
	}
	c := w.Comm(H)
	if !c.IsQuorum(ids) {
		m.Stats["C05 not judged: deciding correct weight below quorum"]++
		return
	}
	vmax := uint64(0)
	for _, n := range deciding {
		if v := uint64(n.St.View()); v > vmax {
			vmax = v
		}
	}
	if vmax+2*uint64(c.N())+4 > MaxTimerView {
		m.Stats["C05 not judged: views beyond the range of the virtual timers"]++
		return
	}
	// recorded known finding (C05): a correct leader never counts its own proposal towards "prepared", so a member
	// whose own weight reaches the quorum cannot make progress alone when everybody else is silent
	for _, n := range deciding {
		if c.IsQuorum([]string{n.Id}) {
			if prop != "C05" {
				m.Stats["tail not judged: a member's own weight reaches the quorum (recorded C05 finding)"]++
				return
			}
			m.taint["member-weight-reaches-quorum"] = true
		}
	}
	m.Stats["C05 tails judged"]++
	w.GST = true
	w.Clock = 1 << 60
	for _, n := range deciding {
		if v := uint64(n.St.View()); v > vmax {
			vmax = v
		}
		if n.ES.Armed {
			// the timer was armed at some earlier moment: its remaining time is anything in (0, timeout]
			dur := n.ES.Expiry() - n.ES.ArmAt
			n.ES.ArmAt = w.Clock - uint64(w.Rng.Int63n(int64(dur)))
		}
	}
	if vmax > 0 {
		m.Stats["C05 tails starting above view 0"]++
	}
	bound := vmax + 2*uint64(c.N()) + 2
	stabEmit := w.emit
	committed := func(n *Node) bool { _, ok := n.Commits[H]; return ok || uint64(n.St.Height()) > H }
	advPct := 0
	if adv.Active() && !p.TailQuiet {
		advPct = 5 + w.Rng.Intn(20)
	}
	completenessDone := false
	for iter := 0; iter < 4000; iter++ {
		// zero-latency phase: everything in flight is delivered, in emission order
		for guard := 0; len(w.Pool) > 0 && guard < 20000; guard++ {
			// any order among the in-flight messages is "delivered before the next timer"
			i := 0
			if w.Rng.Intn(2) == 0 {
				i = w.Rng.Intn(len(w.Pool))
			}
			f := w.TakeFlight(i)
			if f.Msg != nil && f.Msg.H > w.Cfg.MaxH {
				continue
			}
			w.Deliver(f)
			m.Stats["delivered"]++
			if advPct > 0 && w.Rng.Intn(100) < advPct {
				adv.Step()
			}
		}
		// quiescent
		nCommitted := 0
		for _, n := range deciding {
			if committed(n) {
				nCommitted++
			}
		}
		if nCommitted > 0 && !completenessDone {
			completenessDone = true
			m.judgeCompleteness(prop, H, deciding, stabEmit)
		}
		if nCommitted > 0 {
			m.Stats["C05 tails with commit"]++
			res.TailViews = int(maxView(deciding) - vmax)
			return
		}
		// the earliest armed timer of a deciding node expires
		var next *Node
		for _, n := range deciding {
			if n.ES.Armed && uint64(n.St.Height()) == H && (next == nil || n.ES.Expiry() < next.ES.Expiry()) {
				next = n
			}
		}
		if next == nil {
			m.violate(prop, "no-armed-timer-and-no-commit", "height %d: after stabilisation no deciding correct node has an armed election timer and none committed", H)
			return
		}
		if e := next.ES.Expiry(); e > w.Clock {
			w.Clock = e
		}
		w.Timeout(next)
		m.Stats["timeouts"]++
		if mv := maxView(deciding); mv > bound {
			lead := c.Leader(mv)
			m.violate(prop, "no-commit-within-view-bound", "height %d: stabilised at max view %d, reached view %d (bound %d = vmax + 2n + 2) with no commit at any correct node (leader of that view: %s, correct=%v)", H, vmax, mv, bound, lead, w.IsCorrect(lead))
			return
		}
	}
	m.Stats["C05 tail iteration cap reached"]++
}

func maxView(nodes []*Node) uint64 {
	mv := uint64(0)
	for _, n := range nodes {
		if v := uint64(n.St.View()); v > mv {
			mv = v
		}
	}
	return mv
}

// judgeCompleteness: every correct node that stored the committing view's proposal commits it,
// provided that proposal was emitted after stabilisation.
func (m *Monitors) judgeCompleteness(prop string, H uint64, deciding []*Node, stabEmit uint64) {
	w := m.w
	var rec *CommitRec
	for _, n := range deciding {
		if c, ok := n.Commits[H]; ok && (rec == nil || c.Seq < rec.Seq) {
			rec = c
		}
	}
	if rec == nil {
		return
	}
	br := protocol.BlockProofReader(rec.Proof).BlockRef()
	view, hash := uint64(br.View()), string(br.BlockHash())
	post := false
	found := false
	for _, f := range w.Seen {
		msg := f.Msg
		if msg == nil || msg.H != H || msg.V != view || string(msg.Hash) != hash || (msg.Env != ref.EnvPP && msg.Env != ref.EnvNV) {
			continue
		}
		if !found {
			found = true
			post = f.Emit > stabEmit
		}
	}
	if !found || !post {
		m.Stats["C05 completeness not judged: committing view's proposal predates stabilisation"]++
		return
	}
	// the clause is about the view that correct members of quorum weight joined; a commit that needed Byzantine COMMITs
	// (sent to some correct nodes only) is outside it
	var acceptors []string
	for _, n := range deciding {
		// (a node that committed has disposed of its store: what it stored in that view is in the monitor's record of its
		// Storage calls; a node that committed in another view, with other help, did not join this one)
		if h, ok := m.node(n.Id).storedPP[hv{H, view}]; ok && h == hash {
			acceptors = append(acceptors, n.Id)
			continue
		}
		if pp, ok := n.Store.GetPreprepareMessage(primitivesH(H), primitivesV(view)); ok && pp != nil && string(pp.Content().SignedHeader().BlockHash()) == hash && pp.Block() != nil {
			acceptors = append(acceptors, n.Id)
		}
	}
	if !w.Comm(H).IsQuorum(acceptors) {
		m.Stats["C05 completeness not judged: correct acceptors below quorum weight (commit needed Byzantine help)"]++
		return
	}
	m.Stats["C05 completeness judged"]++
	for _, n := range deciding {
		if pp, ok := n.Store.GetPreprepareMessage(primitivesH(H), primitivesV(view)); ok && pp != nil && string(pp.Content().SignedHeader().BlockHash()) == hash && pp.Block() != nil {
			if _, done := n.Commits[H]; !done && uint64(n.St.Height()) == H {
				m.violate(prop, "acceptor-of-committing-view-left-behind", "height %d view %d: node %s accepted the proposal that was committed (emitted after stabilisation) but has not committed it once the network is quiescent", H, view, n.Id)
			}
		}
	}
}

var _ = spi.HashOf
