package sim

// RunTail runs the stabilised tail (C05).
func RunTail(w *World, adv *Adversary, p *Profile, res *Result) {}
