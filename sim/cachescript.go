package sim

import (
	"fmt"
	"math/rand"
	"sort"

	"github.com/orbs-network/lean-helix-go/services/interfaces"

	"verif/ref"
	"verif/spi"
)

// CacheScriptStats is what ScriptMalformedAmongValid observed.
type CacheScriptStats struct {
	Worlds                     int
	ValidMessages              int
	MalformedInserted          int
	MalformedAheadOfValidCache int // worlds in which a malformed message sat in the future cache in front of valid ones
	EffectsCompared            int
	CommitsInControl           int
	Samples                    []string
}

// ScriptMalformedAmongValid (C12, "after any such input the node still processes later valid messages"): a differential
// oracle. One real node L follows a scripted committee. A fixed sequence of valid messages — the whole traffic of height 2
// (proposal, PREPAREs, COMMITs, in a PRNG order) received while L is still at height 1, i.e. into its future cache, then
// the traffic of height 1, which lets L commit height 1, start height 2, drain the cache and commit height 2 — is delivered to
// two copies of L: a control copy, and a copy that also receives malformed messages (block-hash length wrapped past 2^32
// in a PREPARE / COMMIT correctly signed by a committee member; nested offsets overwritten) at PRNG positions of that
// sequence, also in front of the cached valid ones. Everything the control copy does with the valid messages (stores,
// sends, commit and new-round callbacks) the other copy must do too.
func ScriptMalformedAmongValid(seed int64, worlds int) ([]Violation, *CacheScriptStats, []StepRec) {
	rng := rand.New(rand.NewSource(seed))
	st := &CacheScriptStats{}
	var viol []Violation
	var lastTrace []StepRec
	inst := uint64(spi.InstanceId)
	type step struct {
		from      string
		raw       *interfaces.ConsensusRawMessage
		malformed bool
	}
	for i := 0; i < worlds; i++ {
		n := 4 + rng.Intn(3)
		weights := make([]uint64, n)
		for k := range weights {
			weights[k] = 1
		}
		me := 1 + rng.Intn(n-1) // never position 0: the view-0 leader is scripted
		myId := fmt.Sprintf("nd%02d", me)
		var others []string
		for k := 0; k < n; k++ {
			if k != me {
				others = append(others, fmt.Sprintf("nd%02d", k))
			}
		}
		leader := "nd00"
		mkWorld := func() *World {
			w := scriptedWorld(weights, others, 2)
			w.Start()
			return w
		}
		ctl, hos := mkWorld(), mkWorld()
		keys := ctl.Keys // (both worlds derive the same keys from the same ids)
		sign := func(id string, h uint64) func([]byte) []byte {
			return func(x []byte) []byte { return keys.SignCM(id, h, x) }
		}
		seed1 := seedBytes(nil)
		seed2 := seedBytes(keys.MasterSeedSig(1, seed1))
		seeds := map[uint64][]byte{1: seed1, 2: seed2}
		valid := func(h uint64) []step {
			blk := &spi.Blk{H: h, Body: fmt.Sprintf("cache-%d-%d", i, h)}
			hash := spi.HashOf(blk)
			mk := func(env ref.Env, typ ref.MT, id string) step {
				hdr := &ref.Ref{Type: typ, Inst: inst, H: h, V: 0, Hash: hash}
				sg := ref.Sig{Id: id, Sig: keys.SignCM(id, h, hdr.Bytes())}
				var share []byte
				var b interfaces.Block
				if env == ref.EnvC {
					share = keys.Share(id, h, seeds[h])
				}
				if env == ref.EnvPP {
					b = blk
				}
				return step{from: id, raw: ref.RawBlockRefMsg(env, hdr, sg, share, b)}
			}
			out := []step{mk(ref.EnvPP, ref.PP, leader)}
			for _, id := range others {
				if id != leader {
					out = append(out, mk(ref.EnvP, ref.P, id))
				}
			}
			for _, id := range others {
				out = append(out, mk(ref.EnvC, ref.C, id))
			}
			return out
		}
		malformed := func(h uint64) step {
			id := others[rng.Intn(len(others))]
			hash := make([]byte, 32)
			rng.Read(hash)
			switch rng.Intn(3) {
			case 0:
				return step{from: id, raw: mkWrapLen(sign(id, h), ref.EnvP, ref.P, id, inst, h, 0, hash, byte(0xe0+rng.Intn(32)), nil), malformed: true}
			case 1:
				return step{from: id, raw: mkWrapLen(sign(id, h), ref.EnvC, ref.C, id, inst, h, 0, hash, byte(0xe0+rng.Intn(32)), keys.Share(id, h, seeds[h])), malformed: true}
			default:
				// a genuine valid message of that height with one 4-byte aligned field overwritten by a value next to 2^32
				// (a corruption that turns the message into one for another height is left out: a message for a higher height
				// legitimately evicts the one-height future cache — C17's proviso —, which is not what this oracle is about)
				src := valid(h)
				for try := 0; try < 20; try++ {
					b := append([]byte{}, src[rng.Intn(len(src))].raw.Content...)
					at := 4 * (2 + rng.Intn((len(b)-12)/4))
					v := [][4]byte{{0xfc, 0xff, 0xff, 0xff}, {0xff, 0xff, 0xff, 0xff}, {0xf0, 0xff, 0xff, 0xff}}[rng.Intn(3)]
					b[at], b[at+1], b[at+2], b[at+3] = v[0], v[1], v[2], v[3]
					raw := &interfaces.ConsensusRawMessage{Content: b}
					if cm := spi.SafeParse(raw); cm == nil || uint64(cm.BlockHeight()) == h {
						return step{from: id, raw: raw, malformed: true}
					}
				}
				return step{from: id, malformed: true}
			}
		}
		h2 := valid(2)
		switch rng.Intn(3) { // arrival order of the cached batch
		case 0:
		case 1:
			for a, b := 0, len(h2)-1; a < b; a, b = a+1, b-1 {
				h2[a], h2[b] = h2[b], h2[a]
			}
		default:
			rng.Shuffle(len(h2), func(a, b int) { h2[a], h2[b] = h2[b], h2[a] })
		}
		h1 := valid(1)
		var seq []step
		ahead := false
		if rng.Intn(3) > 0 { // a malformed message at the head of the cached batch
			seq = append(seq, malformed(2))
			ahead = true
		}
		for _, s := range h2 {
			seq = append(seq, s)
			if rng.Intn(4) == 0 {
				seq = append(seq, malformed(2))
			}
		}
		for _, s := range h1 {
			if rng.Intn(5) == 0 {
				seq = append(seq, malformed(1))
			}
			seq = append(seq, s)
		}
		st.Worlds++
		if ahead {
			st.MalformedAheadOfValidCache++
		}
		run := func(w *World, withMalformed bool) {
			for _, s := range seq {
				if s.raw == nil || (s.malformed && !withMalformed) {
					continue
				}
				f := w.Inject(s.from, myId, s.raw)
				w.take(func(x *Flight) bool { return x == f })
				w.Deliver(f)
			}
		}
		for _, s := range seq {
			if s.malformed {
				st.MalformedInserted++
			} else {
				st.ValidMessages++
			}
		}
		run(ctl, false)
		run(hos, true)
		effects := func(w *World) map[string]int {
			out := map[string]int{}
			for _, e := range w.Log.Snapshot() {
				if e.Node != myId {
					continue
				}
				switch e.Kind {
				case spi.EvStorePP, spi.EvStoreP, spi.EvStoreC, spi.EvStoreVC:
					if e.Ok {
						out[fmt.Sprintf("%s h=%d v=%d from=%s", e.Kind, e.H, e.V, e.Sender)]++
					}
				case spi.EvCommit, spi.EvNewRound:
					out[fmt.Sprintf("%s h=%d", e.Kind, e.H)]++
				case spi.EvSend:
					if m, ok := ref.Decode(e.Raw); ok {
						out[fmt.Sprintf("send %s h=%d v=%d", m.Env, m.H, m.V)]++
					}
				}
			}
			return out
		}
		ce, he := effects(ctl), effects(hos)
		var missing []string
		for k, c := range ce {
			st.EffectsCompared++
			if he[k] < c {
				missing = append(missing, k)
			}
		}
		sort.Strings(missing)
		st.CommitsInControl += len(ctl.Nodes[myId].Commits)
		if len(missing) > 0 {
			viol = append(viol, Violation{Prop: "C12", Rule: "valid-messages-not-processed-after-a-malformed-one", Detail: fmt.Sprintf("n=%d node=%s: the same valid traffic (height 2 into the future cache, then height 1) with %d malformed messages inserted (one at the head of the cached batch: %v): effects of the valid messages that the control copy shows and this copy lacks: %v (control committed %d heights, this copy %d)", n, myId, st.MalformedInserted, ahead, missing, len(ctl.Nodes[myId].Commits), len(hos.Nodes[myId].Commits)), Step: len(hos.Trace)})
		}
		for _, x := range hos.Mon.Viol {
			if x.Prop == "C12" {
				viol = append(viol, x)
			}
		}
		if len(st.Samples) < 4 && i%7 == 0 {
			st.Samples = append(st.Samples, fmt.Sprintf("n=%d node=%s valid=%d malformed inserted so far=%d control commits=%d", n, myId, len(h1)+len(h2), st.MalformedInserted, len(ctl.Nodes[myId].Commits)))
		}
		lastTrace = hos.Trace
		ctl.release()
		hos.release()
		if len(viol) > 0 {
			return viol, st, lastTrace
		}
	}
	return viol, st, lastTrace
}
