package sim

import (
	"context"
	"fmt"
	"math/rand"
	"time"

	"github.com/orbs-network/lean-helix-go/services/interfaces"
	"github.com/orbs-network/lean-helix-go/spec/types/go/primitives"

	"verif/ref"
	"verif/spi"
)

// Scripted scenarios: deterministic reproductions of the recorded known findings, so that every run
// of the owning check shows them (KNOWN-FINDING) on the specific history that fails.

func scriptedWorld(weights []uint64, byz []string, maxH uint64) *World {
	cfg := &CaseConfig{Committees: map[uint64][]interfaces.CommitteeMember{}, Byz: map[string]bool{}, Outsiders: map[string]bool{}, MaxH: maxH}
	var ids []string
	for i := range weights {
		ids = append(ids, fmt.Sprintf("nd%02d", i))
	}
	cfg.Universe = append(cfg.Universe, ids...)
	for h := uint64(1); h <= maxH+1; h++ {
		var cm []interfaces.CommitteeMember
		for i, id := range ids {
			cm = append(cm, interfaces.CommitteeMember{Id: primitives.MemberId(id), Weight: primitives.MemberWeight(weights[i])})
		}
		cfg.Committees[h] = cm
	}
	for _, b := range byz {
		cfg.Byz[b] = true
	}
	w := NewWorld(cfg, rand.New(rand.NewSource(1)))
	w.KeepTrace = true
	return w
}

// take removes and returns the flights matching the filter.
func (w *World) take(match func(f *Flight) bool) []*Flight {
	var out, rest []*Flight
	for _, f := range w.Pool {
		if match(f) {
			out = append(out, f)
		} else {
			rest = append(rest, f)
		}
	}
	w.Pool = rest
	return out
}

func (w *World) deliverAll(match func(f *Flight) bool) int {
	n := 0
	for {
		fs := w.take(match)
		if len(fs) == 0 {
			return n
		}
		for _, f := range fs {
			w.Deliver(f)
			n++
		}
	}
}

// ScriptBarePreprepareFork: 4 equal members, n01 Byzantine and leader of view 1. n00 commits the view-0
// block; n02 and n03 (prepared, but the COMMITs towards them are lost) time out into view 1, where the
// Byzantine leader sends them a standalone PREPREPARE for another block: they prepare and commit it.
func ScriptBarePreprepareFork() *Result {
	w := scriptedWorld([]uint64{1, 1, 1, 1}, []string{"nd01"}, 1)
	w.Start()
	isEnv := func(e ref.Env) func(f *Flight) bool {
		return func(f *Flight) bool { return f.Msg != nil && f.Msg.Env == e }
	}
	// view 0: leader n00 proposes; proposal and PREPAREs reach every correct node
	w.deliverAll(isEnv(ref.EnvPP))
	w.deliverAll(isEnv(ref.EnvP))
	// COMMITs: only those addressed to n00 are delivered, the rest is lost
	w.deliverAll(func(f *Flight) bool { return f.Msg != nil && f.Msg.Env == ref.EnvC && f.To == "nd00" })
	w.take(isEnv(ref.EnvC))
	// n02 and n03 time out into view 1 (leader n01 is Byzantine)
	w.Timeout(w.Nodes["nd02"])
	w.Timeout(w.Nodes["nd03"])
	w.take(isEnv(ref.EnvVC))
	// the Byzantine leader of view 1 sends a standalone PREPREPARE for a fresh block, then supports it
	adv := NewAdversary(w, &Profile{Adversary: true, AdvWeights: map[string]int{"barePP": 1}})
	E := &spi.Blk{H: 1, Body: "evil-scripted"}
	inst := uint64(spi.InstanceId)
	pp := adv.mkRefMsg(ref.EnvPP, ref.PP, "nd01", inst, 1, 1, spi.HashOf(E), E)
	for _, to := range []string{"nd02", "nd03"} {
		w.Deliver(w.Inject("nd01", to, pp))
	}
	// their PREPAREs reach each other: with the leader's proposal that is quorum weight (3 of 4)
	w.deliverAll(func(f *Flight) bool { return f.Honest && f.Msg != nil && f.Msg.Env == ref.EnvP && f.Msg.V == 1 })
	for _, to := range []string{"nd02", "nd03"} {
		w.Deliver(w.Inject("nd01", to, adv.mkRefMsg(ref.EnvC, ref.C, "nd01", inst, 1, 1, spi.HashOf(E), nil)))
	}
	w.deliverAll(func(f *Flight) bool {
		return f.Honest && f.Msg != nil && f.Msg.Env == ref.EnvC && f.Msg.V == 1 && f.To != "nd00"
	})
	w.release()
	return &Result{Cfg: w.Cfg, Viol: w.Mon.Viol, Stats: w.Mon.Stats, Trace: w.Trace, Steps: len(w.Trace)}
}

// ScriptHeavyMember: weights 7,1,1,1 (W=10, f=3, Q=7); the three light members are Byzantine and silent.
// The only correct member holds quorum weight alone, yet never commits in the views it leads.
func ScriptHeavyMember() *Result {
	w := scriptedWorld([]uint64{1, 7, 1, 1}, []string{"nd00", "nd02", "nd03"}, 1)
	w.Start()
	res := &Result{Cfg: w.Cfg}
	p := &Profile{Tail: true, TailQuiet: true}
	RunTail(w, NewAdversary(w, p), p, res)
	res.Viol, res.Stats, res.Trace, res.Steps = w.Mon.Viol, w.Mon.Stats, w.Trace, len(w.Trace)
	w.release()
	return res
}

func (w *World) release() {
	for _, id := range w.Order {
		w.Nodes[id].W.VerifObserveRecoveredPanics(nil)
	}
}

// HugeViewStats is what ScriptHugeViews observed.
type HugeViewStats struct {
	Worlds, Adopted, WrongSenderIgnored, Elected, Destinations int
	Samples                                                    []string
}

// ScriptHugeViews (C18, behaviour): one real node receives messages that carry far-away views and are valid in every other
// respect — the other members' keys all belong to the script, which is outside the f bound of the consensus properties
// but inside C18's own quantifier ("every view value carried by a received message"). The NEW_VIEW of the member at
// position view mod n must be adopted (the node moves to that view and prepares), the same NEW_VIEW from any other member
// must not; votes of the others for a view at the node's own position must elect it; the next timeout's vote must go to the
// member at position (view+1) mod n (judged by the C18 destination monitor). Handling one message is given `limit`; a
// handler still running after that is reported as leader computation that does not complete.
func ScriptHugeViews(seed int64, worlds int, limit time.Duration) ([]Violation, *HugeViewStats, []StepRec, bool) {
	rng := rand.New(rand.NewSource(seed))
	st := &HugeViewStats{}
	var viol []Violation
	var lastTrace []StepRec
	centres := []uint64{1 << 20, 1 << 31, 1 << 32, 1 << 33, 1 << 47, 1 << 62, 1 << 63, ^uint64(0) - 40}
	for i := 0; i < worlds; i++ {
		n := 4 + rng.Intn(5)
		weights := make([]uint64, n)
		for k := range weights {
			weights[k] = 1
		}
		me := rng.Intn(n)
		var byz []string
		for k := 0; k < n; k++ {
			if k != me {
				byz = append(byz, fmt.Sprintf("nd%02d", k))
			}
		}
		myId := fmt.Sprintf("nd%02d", me)
		w := scriptedWorld(weights, byz, 1)
		w.Start()
		adv := NewAdversary(w, &Profile{Adversary: true})
		node := w.Nodes[myId]
		c := w.Comm(1)
		v := centres[i%len(centres)] + uint64(rng.Intn(40))
		if i%len(centres) < 2 && rng.Intn(2) == 0 {
			v -= uint64(rng.Intn(30))
		}
		inst := uint64(spi.InstanceId)
		bad := func(rule, format string, a ...interface{}) {
			viol = append(viol, Violation{Prop: "C18", Rule: rule, Detail: fmt.Sprintf("n=%d node=%s view=%d: ", n, myId, v) + fmt.Sprintf(format, a...), Step: len(w.Trace)})
		}
		deliver := func(from string, raw *interfaces.ConsensusRawMessage) bool {
			done := make(chan struct{})
			f := w.Inject(from, myId, raw)
			w.take(func(x *Flight) bool { return x == f })
			go func() { w.Deliver(f); close(done) }()
			select {
			case <-done:
				return true
			case <-time.After(limit):
				bad("handling-a-received-view-does-not-complete", "the handler of a %s from %s carrying that view is still running after %v (its normal cost is microseconds): leader computation for a received view value does not complete", f.Msg.Env, from, limit)
				return false
			}
		}
		st.Worlds++
		leader := c.Leader(v)
		E := &spi.Blk{H: 1, Body: fmt.Sprintf("huge-%d", i)}
		var votes []*ref.Vote
		for _, b := range byz {
			votes = append(votes, adv.mkVote(b, inst, 1, v, nil))
		}
		if leader == myId {
			// votes of all the others for a view at the node's own position: it must collect them and announce the view
			for k, vt := range votes {
				if !deliver(byz[k], ref.RawVoteMsg(vt, nil)) {
					return viol, st, w.Trace, false
				}
			}
			announced := false
			for _, f := range w.Seen {
				if f.Honest && f.From == myId && f.Msg != nil && f.Msg.Env == ref.EnvNV && f.Msg.V == v {
					announced = true
				}
			}
			if !announced || uint64(node.St.View()) != v {
				bad("member-at-view-mod-n-not-elected-by-a-quorum-of-votes", "every other member voted for that view, whose position %d is the node's own; the node is in view %d and announced=%v", v%uint64(n), uint64(node.St.View()), announced)
			} else {
				st.Elected++
			}
		} else {
			// the same NEW_VIEW from a member at another position first: must be ignored
			wrong := byz[rng.Intn(len(byz))]
			if wrong != leader {
				if !deliver(wrong, adv.mkNV(wrong, 1, v, votes, spi.HashOf(E), E, v)) {
					return viol, st, w.Trace, false
				}
				if uint64(node.St.View()) == v {
					bad("new-view-of-a-member-at-another-position-adopted", "NEW_VIEW sent and signed by %s (position %d) was adopted; the leader of that view is %s (position %d)", wrong, indexOf(c, wrong), leader, v%uint64(n))
				} else {
					st.WrongSenderIgnored++
				}
			}
			if !deliver(leader, adv.mkNV(leader, 1, v, votes, spi.HashOf(E), E, v)) {
				return viol, st, w.Trace, false
			}
			prepared := false
			for _, f := range w.Seen {
				if f.Honest && f.From == myId && f.Msg != nil && f.Msg.Env == ref.EnvP && f.Msg.V == v && string(f.Msg.Hash) == string(spi.HashOf(E)) {
					prepared = true
				}
			}
			if uint64(node.St.View()) != v || !prepared {
				bad("new-view-of-the-member-at-view-mod-n-not-adopted", "a NEW_VIEW with the votes of all %d other members, sent by %s = committee[%d], left the node in view %d (PREPARE sent=%v)", len(votes), leader, v%uint64(n), uint64(node.St.View()), prepared)
			} else {
				st.Adopted++
			}
		}
		// the next timeout: the vote goes to the member at position (view+1) mod n (judged by the destination monitor)
		if uint64(node.St.View()) == v && v != ^uint64(0) {
			before := w.Mon.Stats["C18 view change destinations judged"]
			done := make(chan struct{})
			go func() { w.Timeout(node); close(done) }()
			select {
			case <-done:
			case <-time.After(limit):
				bad("handling-a-received-view-does-not-complete", "the election timeout of that view is still being handled after %v", limit)
				return viol, st, w.Trace, false
			}
			st.Destinations += w.Mon.Stats["C18 view change destinations judged"] - before
		}
		for _, x := range w.Mon.Viol {
			if x.Prop == "C18" {
				x.Detail = fmt.Sprintf("n=%d node=%s view=%d: %s", n, myId, v, x.Detail)
				viol = append(viol, x)
			}
		}
		if len(st.Samples) < 6 && i%3 == 0 {
			st.Samples = append(st.Samples, fmt.Sprintf("n=%d node=%s view=%d leader=%s -> node view %d", n, myId, v, leader, uint64(node.St.View())))
		}
		lastTrace = w.Trace
		w.release()
		if len(viol) > 0 {
			return viol, st, lastTrace, true
		}
	}
	return viol, st, lastTrace, true
}

func indexOf(c *ref.Committee, id string) int {
	for i := 0; i < c.N(); i++ {
		if c.Leader(uint64(i)) == id {
			return i
		}
	}
	return -1
}

// ScriptCommitteeRetries (C18): the consumer's RequestOrderedCommittee fails several times in a row when a round starts (the
// library polls it every 200 ms of real time) and then answers; RequestCommitteeForBlockProof — the unordered committee, which
// the fake hands out in another order — works all the time. Whatever happens meanwhile, the node's rotation must run over the
// ordered committee: the member at position 0 proposes in view 0 and nobody else does, the first timeout's vote goes to
// position 1.
func ScriptCommitteeRetries(seed int64, worlds int) ([]Violation, int, int) {
	rng := rand.New(rand.NewSource(seed))
	var viol []Violation
	judged, dests := 0, 0
	for i := 0; i < worlds; i++ {
		n := 4 + rng.Intn(3)
		weights := make([]uint64, n)
		for k := range weights {
			weights[k] = 1
		}
		me := []int{0, n - 1, rng.Intn(n)}[i%3]
		var byz []string
		for k := 0; k < n; k++ {
			if k != me {
				byz = append(byz, fmt.Sprintf("nd%02d", k))
			}
		}
		myId := fmt.Sprintf("nd%02d", me)
		w := scriptedWorld(weights, byz, 1)
		node := w.Nodes[myId]
		fails := 5 + rng.Intn(3)
		node.Mem.OnRequest = func(ctx context.Context, h uint64) error {
			if fails > 0 {
				fails--
				return fmt.Errorf("committee contract temporarily unavailable")
			}
			return nil
		}
		w.Start()
		c := w.Comm(1)
		proposed := false
		for _, f := range w.Seen {
			if f.Honest && f.From == myId && f.Msg != nil && f.Msg.Env == ref.EnvPP && f.Msg.H == 1 && f.Msg.V == 0 {
				proposed = true
			}
		}
		judged++
		if proposed != (c.Leader(0) == myId) {
			viol = append(viol, Violation{Prop: "C18", Rule: "view-0-proposal-decided-over-another-committee-order", Detail: fmt.Sprintf("n=%d node=%s (position %d of the ordered committee), RequestOrderedCommittee failed several times before answering: the node proposed in view 0 = %v, the member at position 0 is %s", n, myId, me, proposed, c.Leader(0)), Step: len(w.Trace)})
		}
		before := w.Mon.Stats["C18 view change destinations judged"]
		w.Timeout(node)
		dests += w.Mon.Stats["C18 view change destinations judged"] - before
		for _, x := range w.Mon.Viol {
			if x.Prop == "C18" {
				x.Detail = fmt.Sprintf("n=%d node=%s after failing committee requests: %s", n, myId, x.Detail)
				viol = append(viol, x)
			}
		}
		w.release()
		if len(viol) > 0 {
			break
		}
	}
	return viol, judged, dests
}
