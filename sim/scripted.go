package sim

import (
	"math/rand"

	"github.com/orbs-network/lean-helix-go/services/interfaces"
	"github.com/orbs-network/lean-helix-go/spec/types/go/primitives"

	"verif/ref"
	"verif/spi"
)

// Scripted scenarios: deterministic reproductions of the recorded known findings, so that every run
// of the owning check shows them (KNOWN-FINDING) on the specific history that fails.

func scriptedWorld(weights []uint64, byz []string, maxH uint64) *World {
	cfg := &CaseConfig{Committees: map[uint64][]interfaces.CommitteeMember{}, Byz: map[string]bool{}, Outsiders: map[string]bool{}, MaxH: maxH}
	ids := []string{"nd00", "nd01", "nd02", "nd03"}
	cfg.Universe = append(cfg.Universe, ids...)
	for h := uint64(1); h <= maxH+1; h++ {
		var cm []interfaces.CommitteeMember
		for i, id := range ids {
			cm = append(cm, interfaces.CommitteeMember{Id: primitives.MemberId(id), Weight: primitives.MemberWeight(weights[i])})
		}
		cfg.Committees[h] = cm
	}
	for _, b := range byz {
		cfg.Byz[b] = true
	}
	w := NewWorld(cfg, rand.New(rand.NewSource(1)))
	w.KeepTrace = true
	return w
}

// take removes and returns the flights matching the filter.
func (w *World) take(match func(f *Flight) bool) []*Flight {
	var out, rest []*Flight
	for _, f := range w.Pool {
		if match(f) {
			out = append(out, f)
		} else {
			rest = append(rest, f)
		}
	}
	w.Pool = rest
	return out
}

func (w *World) deliverAll(match func(f *Flight) bool) int {
	n := 0
	for {
		fs := w.take(match)
		if len(fs) == 0 {
			return n
		}
		for _, f := range fs {
			w.Deliver(f)
			n++
		}
	}
}

// ScriptBarePreprepareFork: 4 equal members, n01 Byzantine and leader of view 1. n00 commits the view-0
// block; n02 and n03 (prepared, but the COMMITs towards them are lost) time out into view 1, where the
// Byzantine leader sends them a standalone PREPREPARE for another block: they prepare and commit it.
func ScriptBarePreprepareFork() *Result {
	w := scriptedWorld([]uint64{1, 1, 1, 1}, []string{"nd01"}, 1)
	w.Start()
	isEnv := func(e ref.Env) func(f *Flight) bool {
		return func(f *Flight) bool { return f.Msg != nil && f.Msg.Env == e }
	}
	// view 0: leader n00 proposes; proposal and PREPAREs reach every correct node
	w.deliverAll(isEnv(ref.EnvPP))
	w.deliverAll(isEnv(ref.EnvP))
	// COMMITs: only those addressed to n00 are delivered, the rest is lost
	w.deliverAll(func(f *Flight) bool { return f.Msg != nil && f.Msg.Env == ref.EnvC && f.To == "nd00" })
	w.take(isEnv(ref.EnvC))
	// n02 and n03 time out into view 1 (leader n01 is Byzantine)
	w.Timeout(w.Nodes["nd02"])
	w.Timeout(w.Nodes["nd03"])
	w.take(isEnv(ref.EnvVC))
	// the Byzantine leader of view 1 sends a standalone PREPREPARE for a fresh block, then supports it
	adv := NewAdversary(w, &Profile{Adversary: true, AdvWeights: map[string]int{"barePP": 1}})
	E := &spi.Blk{H: 1, Body: "evil-scripted"}
	inst := uint64(spi.InstanceId)
	pp := adv.mkRefMsg(ref.EnvPP, ref.PP, "nd01", inst, 1, 1, spi.HashOf(E), E)
	for _, to := range []string{"nd02", "nd03"} {
		w.Deliver(w.Inject("nd01", to, pp))
	}
	// their PREPAREs reach each other: with the leader's proposal that is quorum weight (3 of 4)
	w.deliverAll(func(f *Flight) bool { return f.Honest && f.Msg != nil && f.Msg.Env == ref.EnvP && f.Msg.V == 1 })
	for _, to := range []string{"nd02", "nd03"} {
		w.Deliver(w.Inject("nd01", to, adv.mkRefMsg(ref.EnvC, ref.C, "nd01", inst, 1, 1, spi.HashOf(E), nil)))
	}
	w.deliverAll(func(f *Flight) bool {
		return f.Honest && f.Msg != nil && f.Msg.Env == ref.EnvC && f.Msg.V == 1 && f.To != "nd00"
	})
	w.release()
	return &Result{Cfg: w.Cfg, Viol: w.Mon.Viol, Stats: w.Mon.Stats, Trace: w.Trace, Steps: len(w.Trace)}
}

// ScriptHeavyMember: weights 7,1,1,1 (W=10, f=3, Q=7); the three light members are Byzantine and silent.
// The only correct member holds quorum weight alone, yet never commits in the views it leads.
func ScriptHeavyMember() *Result {
	w := scriptedWorld([]uint64{1, 7, 1, 1}, []string{"nd00", "nd02", "nd03"}, 1)
	w.Start()
	res := &Result{Cfg: w.Cfg}
	p := &Profile{Tail: true, TailQuiet: true}
	RunTail(w, NewAdversary(w, p), p, res)
	res.Viol, res.Stats, res.Trace, res.Steps = w.Mon.Viol, w.Mon.Stats, w.Trace, len(w.Trace)
	w.release()
	return res
}

func (w *World) release() {
	for _, id := range w.Order {
		w.Nodes[id].W.VerifObserveRecoveredPanics(nil)
	}
}
