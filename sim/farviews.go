package sim

import (
	"fmt"
	"math/rand"
	"time"

	"github.com/orbs-network/lean-helix-go/services/interfaces"

	"verif/ref"
	"verif/spi"
)

// FarViewStats is what ScriptFarViews observed.
type FarViewStats struct {
	Worlds                       int
	Elections                    int // the node became leader of a far-away view through a quorum of votes
	LockChoices                  int // ... and at least one counted vote carried a prepared proof
	StraddlingLockChoices        int // ... with proofs on both sides of 2^31, 2^32 or 2^63
	Adoptions                    int // a valid NEW_VIEW of a far-away view was adopted
	VotesForTheNextRotationFirst int // votes for view T+n delivered to the future leader before the same members' votes for T
	EarlierRotationAdoptions     int // ... by a node that held the same member's proposal of one rotation (n views) earlier
	PreparedAtFarView            int // the node then held a prepared certificate in that view
	LockedVotesJudged            int // VIEW_CHANGEs it sent afterwards, judged for the lock they must carry
	Timeouts                     int
	TimeoutsAtTheLastView        int // election timeouts fired while the node was in view 2^64-1
	StateSamples                 int
	ProofViewsSeen               map[string]int
	Samples                      []string
	HandlerStillRunningFor       string
}

var farBoundaries = []uint64{1 << 31, 1 << 32, 1 << 63}

func farClass(v uint64) string {
	switch {
	case v >= ^uint64(0)-64:
		return "near 2^64-1"
	case v >= 1<<63:
		return ">= 2^63"
	case v >= 1<<32:
		return "2^32 .. 2^63-1"
	case v >= 1<<31:
		return "2^31 .. 2^32-1"
	}
	return "< 2^31"
}

// ScriptFarViews (C09, C13, C18 at view values that do not fit 31 / 32 / 63 bits): one real node, every other member's key
// belongs to the script (outside the f bound of the consensus properties, inside the quantifiers "all reachable node
// states / all vote sets / every view value"). Two scenarios per world:
//
//	elect — the node is the member at position T mod n of a far-away view T; the others vote for T, some votes carrying
//	  valid prepared proofs of different earlier views drawn from both sides of 2^31, 2^32 and 2^63 (and right below T);
//	  the monitors judge its NEW_VIEW (votes embedded as counted, block of the highest-view proof re-proposed);
//	adopt — a valid NEW_VIEW for T arrives from the member at position T mod n; PREPAREs follow, the node becomes
//	  prepared in T; election timeouts follow (up to and including the one fired in view 2^64-1): each VIEW_CHANGE must
//	  carry the proof of view T, go to position (view mod n), and the observable (height, view) must never decrease.
//
// Every handler call gets `limit`; one still running then is reported (C18: work proportional to the view number).
func ScriptFarViews(seed int64, worlds int, limit time.Duration) ([]Violation, *FarViewStats, []StepRec, bool) {
	rng := rand.New(rand.NewSource(seed))
	st := &FarViewStats{ProofViewsSeen: map[string]int{}}
	var viol []Violation
	var lastTrace []StepRec
	inst := uint64(spi.InstanceId)
	for i := 0; i < worlds; i++ {
		// committee: the node's own weight stays within f so that the others alone reach the quorum
		var weights []uint64
		var n, me int
		for {
			n = 4 + rng.Intn(5)
			weights = make([]uint64, n)
			W := uint64(0)
			for k := range weights {
				weights[k] = 1
				if i%3 != 0 {
					weights[k] = uint64(1 + rng.Intn(4))
				}
				W += weights[k]
			}
			me = rng.Intn(n)
			if weights[me] <= (W-1)/3 {
				break
			}
		}
		// target view
		var T uint64
		switch i % 5 {
		case 0:
			T = 1<<31 + 2 + uint64(rng.Intn(40))
		case 1:
			T = 1<<32 + 2 + uint64(rng.Intn(40))
		case 2:
			T = 1<<63 + 2 + uint64(rng.Intn(40))
		case 3:
			T = ^uint64(0) // (a trigger of the last view passes the main loop only if no earlier trigger moved the watermark)
			if rng.Intn(2) == 0 {
				T -= uint64(1 + rng.Intn(3))
			}
		default:
			T = 3 + uint64(rng.Intn(60))
			if rng.Intn(2) == 0 {
				T = rng.Uint64() | 1<<40
			}
		}
		elect := rng.Intn(2) == 0
		if elect {
			me = int(T % uint64(n))
			W := uint64(0)
			for _, x := range weights {
				W += x
			}
			if weights[me] > (W-1)/3 {
				weights[me] = 1
			}
		} else if int(T%uint64(n)) == me {
			me = (me + 1) % n
			weights[me] = 1
		}
		var byz []string
		for k := 0; k < n; k++ {
			if k != me {
				byz = append(byz, fmt.Sprintf("nd%02d", k))
			}
		}
		myId := fmt.Sprintf("nd%02d", me)
		w := scriptedWorld(weights, byz, 1)
		w.Start()
		adv := NewAdversary(w, &Profile{Adversary: true})
		node := w.Nodes[myId]
		c := w.Comm(1)
		if !c.IsQuorum(byz) {
			w.release()
			continue
		}
		st.Worlds++
		desc := fmt.Sprintf("n=%d weights=%v node=%s T=%d", n, weights, myId, T)
		stuck := func(what string) {
			viol = append(viol, Violation{Prop: "C18", Rule: "handling-a-received-view-does-not-complete", Detail: desc + ": " + what + fmt.Sprintf(" is still running after %v", limit), Step: len(w.Trace)})
			viol = append(viol, Violation{Prop: "C12", Rule: "node-wedged-while-handling-a-received-view", Detail: desc + ": " + what + fmt.Sprintf(" is still running after %v (seven orders of magnitude above its normal cost): the worker is stuck, the node handles nothing any more", limit), Step: len(w.Trace)})
			st.HandlerStillRunningFor = what
		}
		timed := func(what string, f func()) bool {
			done := make(chan struct{})
			go func() { f(); close(done) }()
			select {
			case <-done:
				return true
			case <-time.After(limit):
				stuck(what)
				return false
			}
		}
		deliver := func(from string, raw *interfaces.ConsensusRawMessage) bool {
			f := w.Inject(from, myId, raw)
			w.take(func(x *Flight) bool { return x == f })
			return timed("the handler of a message carrying that view", func() { w.Deliver(f) })
		}
		// a valid prepared proof of view pv for block blk, signed by the script's members only
		mkProof := func(pv uint64, blk *spi.Blk) *ref.Proof {
			leader := c.Leader(pv)
			if leader == myId {
				return nil
			}
			pp := &ref.Ref{Type: ref.PP, Inst: inst, H: 1, V: pv, Hash: spi.HashOf(blk)}
			pr := &ref.Ref{Type: ref.P, Inst: inst, H: 1, V: pv, Hash: spi.HashOf(blk)}
			p := &ref.Proof{PPRef: pp, PRef: pr, PPSender: &ref.Sig{Id: leader, Sig: adv.sign(leader, 1, pp.Bytes())}}
			ids := []string{leader}
			for _, id := range byz {
				if id == leader {
					continue
				}
				p.PSenders = append(p.PSenders, ref.Sig{Id: id, Sig: adv.sign(id, 1, pr.Bytes())})
				ids = append(ids, id)
			}
			if !c.IsQuorum(ids) {
				return nil
			}
			return p
		}
		// candidate proof views: right below T, around every boundary below T, small ones
		var cands []uint64
		add := func(v uint64) {
			if v < T {
				cands = append(cands, v)
			}
		}
		add(T - 1)
		add(T - 2)
		for _, b := range farBoundaries {
			add(b - 1)
			add(b)
			add(b + 1)
		}
		add(uint64(rng.Intn(4)))
		add(rng.Uint64() % T)
		rng.Shuffle(len(cands), func(a, b int) { cands[a], cands[b] = cands[b], cands[a] })
		nProofs := rng.Intn(4)
		if i%4 == 0 && nProofs < 2 {
			nProofs = 2
		}
		type lockedVote struct {
			pv  uint64
			blk *spi.Blk
		}
		voteLock := map[string]*lockedVote{}
		var votes []*ref.Vote
		var voters []string
		perm := rng.Perm(len(byz))
		ci := 0
		var proofViews []uint64
		for _, k := range perm {
			id := byz[k]
			var proof *ref.Proof
			if len(proofViews) < nProofs {
				for ci < len(cands) && proof == nil {
					pv := cands[ci]
					ci++
					blk := &spi.Blk{H: 1, Body: fmt.Sprintf("far-%d-locked-at-%d", i, pv)}
					if proof = mkProof(pv, blk); proof != nil {
						voteLock[id] = &lockedVote{pv, blk}
						proofViews = append(proofViews, pv)
						st.ProofViewsSeen[farClass(pv)]++
					}
				}
			}
			votes = append(votes, adv.mkVote(id, inst, 1, T, proof))
			voters = append(voters, id)
		}
		straddle := false
		for _, b := range farBoundaries {
			lo, hi := false, false
			for _, pv := range proofViews {
				if pv < b {
					lo = true
				} else {
					hi = true
				}
			}
			if lo && hi {
				straddle = true
			}
		}
		var best *lockedVote
		for _, lv := range voteLock {
			if best == nil || lv.pv > best.pv {
				best = lv
			}
		}
		ok := true
		if elect {
			nvBefore := w.Mon.Stats["C09 new views judged"]
			lockBefore := w.Mon.Stats["C09 new views re-proposing a lock"]
			if n64 := uint64(n); rng.Intn(2) == 0 && T <= ^uint64(0)-n64 {
				// some members have already voted for the node's next turn one rotation later (view T+n, not a quorum): their votes
				// for T arrive after those and must still be counted
				var early []string
				for _, id := range voters {
					if !c.IsQuorum(append(append([]string{}, early...), id)) && len(early) < 2 {
						early = append(early, id)
					}
				}
				for _, id := range early {
					if ok = deliver(id, ref.RawVoteMsg(adv.mkVote(id, inst, 1, T+n64, nil), nil)); !ok {
						break
					}
					st.VotesForTheNextRotationFirst++
				}
			}
			for k, vt := range votes {
				if !ok {
					break
				}
				var blk interfaces.Block
				if lv := voteLock[voters[k]]; lv != nil {
					blk = lv.blk
				}
				if ok = deliver(voters[k], ref.RawVoteMsg(vt, blk)); !ok {
					break
				}
			}
			if ok {
				if w.Mon.Stats["C09 new views judged"] > nvBefore {
					st.Elections++
				} else {
					viol = append(viol, Violation{Prop: "C18", Rule: "member-at-view-mod-n-not-elected-by-a-quorum-of-votes", Detail: desc + fmt.Sprintf(": every other member voted for view %d, whose position %d is the node's own; no NEW_VIEW was sent (node view %d)", T, T%uint64(n), uint64(node.St.View())), Step: len(w.Trace)})
				}
				if w.Mon.Stats["C09 new views re-proposing a lock"] > lockBefore {
					st.LockChoices++
					if straddle {
						st.StraddlingLockChoices++
					}
				}
				// the followers' PREPAREs: the leader becomes prepared in T
				var prop *Flight
				for _, f := range w.Seen {
					if f.Honest && f.From == myId && f.Msg != nil && f.Msg.Env == ref.EnvNV && f.Msg.V == T {
						prop = f
					}
				}
				if prop != nil {
					for _, id := range byz {
						if ok = deliver(id, adv.mkRefMsg(ref.EnvP, ref.P, id, inst, 1, T, prop.Msg.Hash, nil)); !ok {
							break
						}
					}
				}
			}
		} else {
			leader := c.Leader(T)
			E := &spi.Blk{H: 1, Body: fmt.Sprintf("far-%d-fresh", i)}
			blk := E
			if best != nil {
				blk = best.blk
			}
			if n64 := uint64(n); rng.Intn(2) == 0 && T >= n64+1 {
				// the same member led one rotation earlier: the node first adopts its NEW_VIEW for view T-n (fresh block, no proofs) and
				// holds that proposal when the NEW_VIEW for T arrives
				T0 := T - n64
				var votes0 []*ref.Vote
				for _, id := range byz {
					votes0 = append(votes0, adv.mkVote(id, inst, 1, T0, nil))
				}
				E0 := &spi.Blk{H: 1, Body: fmt.Sprintf("far-%d-one-rotation-earlier", i)}
				if ok = deliver(leader, adv.mkNV(leader, 1, T0, votes0, spi.HashOf(E0), E0, T0)); ok {
					st.EarlierRotationAdoptions++
					if uint64(node.St.View()) != T0 {
						viol = append(viol, Violation{Prop: "C18", Rule: "new-view-of-the-member-at-view-mod-n-not-adopted", Detail: desc + fmt.Sprintf(": a valid NEW_VIEW for view %d (= T-n) sent by %s = committee[%d] left the node in view %d", T0, leader, T0%n64, uint64(node.St.View())), Step: len(w.Trace)})
					}
				}
			}
			if ok {
				ok = deliver(leader, adv.mkNV(leader, 1, T, votes, spi.HashOf(blk), blk, T))
			}
			if ok {
				if uint64(node.St.View()) == T {
					st.Adoptions++
				} else {
					viol = append(viol, Violation{Prop: "C18", Rule: "new-view-of-the-member-at-view-mod-n-not-adopted", Detail: desc + fmt.Sprintf(": a valid NEW_VIEW (votes of all %d other members, %d prepared proofs, highest at view %v) sent by %s = committee[%d] left the node in view %d", len(votes), len(proofViews), proofViews, leader, T%uint64(n), uint64(node.St.View())), Step: len(w.Trace)})
				}
				for _, id := range byz {
					if id == leader {
						continue
					}
					if ok = deliver(id, adv.mkRefMsg(ref.EnvP, ref.P, id, inst, 1, T, spi.HashOf(blk), nil)); !ok {
						break
					}
				}
			}
		}
		if ok {
			if _, held := w.Mon.node(myId).heldCert[1][T]; held {
				st.PreparedAtFarView++
			}
			// election timeouts: up to three, and for views next to 2^64-1 up to and including the one fired in the last view
			rounds := 1 + rng.Intn(3)
			if T >= ^uint64(0)-8 {
				rounds = int(^uint64(0)-T) + 1 + rng.Intn(2)
			}
			lockedBefore := w.Mon.Stats["C09 locked view changes judged"]
			for r := 0; r < rounds && ok; r++ {
				vBefore := uint64(node.St.View())
				atLast := vBefore == ^uint64(0)
				fired := false
				ok = timed("the election timeout of that view", func() { fired = w.Timeout(node) })
				if fired {
					st.Timeouts++
					if atLast {
						st.TimeoutsAtTheLastView++
					} else if ok && uint64(node.St.View()) != vBefore+1 {
						// every view has a successor (the last one excepted): the timeout of view v takes the node to v+1
						for _, p := range []string{"C18", "C05"} {
							viol = append(viol, Violation{Prop: p, Rule: "election-timeout-did-not-move-to-the-next-view", Detail: desc + fmt.Sprintf(": the election timeout of view %d was handed to the worker; the node is in view %d, not %d", vBefore, uint64(node.St.View()), vBefore+1), Step: len(w.Trace)})
						}
					}
				}
			}
			st.LockedVotesJudged += w.Mon.Stats["C09 locked view changes judged"] - lockedBefore
		}
		st.StateSamples += w.Mon.Stats["C13 samples"]
		for _, x := range w.Mon.Viol {
			switch x.Prop {
			case "C09", "C10", "C13", "C18":
				x.Detail = desc + fmt.Sprintf(" scenario=%s proof-views=%v: ", map[bool]string{true: "elect", false: "adopt"}[elect], proofViews) + x.Detail
				viol = append(viol, x)
			}
		}
		if len(st.Samples) < 8 && i%4 == 1 {
			st.Samples = append(st.Samples, desc+fmt.Sprintf(" scenario=%s proof-views=%v -> node view %d", map[bool]string{true: "elect", false: "adopt"}[elect], proofViews, uint64(node.St.View())))
		}
		lastTrace = w.Trace
		w.release()
		if !ok {
			return viol, st, lastTrace, false
		}
		if len(viol) > 0 {
			return viol, st, lastTrace, true
		}
	}
	return viol, st, lastTrace, true
}

// FarViewFindings runs the far-view script for one property and turns its violations into findings with replay files.
func farViewOf(prop string, viol []Violation) []Violation {
	var out []Violation
	for _, v := range viol {
		if v.Prop == prop {
			out = append(out, v)
		}
	}
	return out
}

// FilterViolations keeps the violations of one property.
func FilterViolations(prop string, viol []Violation) []Violation { return farViewOf(prop, viol) }
