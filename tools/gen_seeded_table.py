#!/usr/bin/env python3
"""Prints the DESIGN.md section-6 table from /verif/seeded/*/meta.json."""
import json, os, re
root = os.path.join(os.path.dirname(os.path.dirname(os.path.abspath(__file__))), 'seeded')
def short(s, n):
    s = re.sub(r'\s+', ' ', (s or '').replace('|', '/')).strip()
    return s if len(s) <= n else s[:n-1].rsplit(' ', 1)[0] + '…'
print("| id | change | needs | caught by (quick tier, rule) |")
print("|---|---|---|---|")
for d in sorted(os.listdir(root)):
    p = os.path.join(root, d, 'meta.json')
    if not os.path.exists(p): continue
    m = json.load(open(p))
    caught = ', '.join(c.replace('_', ' ')[:70] for c in m.get('caught_by', [])) or '**not caught**'
    print("| %s | %s | %s | %s |" % (d, short(m.get('summary'), 170), short(m.get('needs_to_manifest'), 170), caught))
