#!/bin/bash
# Mutation self-test (not a registered check): every seeded change under /verif/seeded is applied to a scratch
# worktree of /repo's HEAD (outside /repo and /verif), the listed quick checks are run against that copy, the
# verdicts are written to seeded/<id>/meta.json ("caught_by") and the scratch copy is removed.
# usage: tools/mutation_run.sh [id ...]      (default: all)
cd /verif
ids="$@"; [ -z "$ids" ] && ids=$(ls seeded)
for id in $ids; do
  d=/verif/seeded/$id; [ -f $d/patch.diff ] || continue
  prop=${id%%-*}
  wt=/tmp/mut-$id; out=/tmp/mutout-$id
  git -C /repo worktree remove --force $wt 2>/dev/null; rm -rf $out; mkdir -p $out
  git -C /repo worktree add -q --detach $wt HEAD || continue
  if ! git -C $wt apply $d/patch.diff 2>/dev/null; then echo "$id: patch does not apply"; git -C /repo worktree remove --force $wt; continue; fi
  checks=$(python3 -c "import json;m=json.load(open('$d/meta.json'));print(' '.join(m.get('run_checks') or ['$prop']))")
  caught=""; missed=""
  for c in $checks; do
    VERIF_REPO=$wt VERIF_OUT=$out ./check $c --tier quick > $out/$c.log 2>&1; rc=$?
    if [ $rc -eq 1 ] && grep -q "^VIOLATION property=$c" $out/$c.log; then caught="$caught $c:$(grep -m1 '^  rule=' $out/$c.log | sed 's/  rule=//' | cut -c1-80 | tr ' ' '_')"; else missed="$missed $c(exit=$rc)"; fi
  done
  echo "$id caught:[$caught ] missed:[$missed ]"
  python3 - "$d/meta.json" "$caught" "$missed" <<'PY'
import json,sys
p,c,m=sys.argv[1:4]
j=json.load(open(p)); j['caught_by']=c.split(); j['not_caught_by']=m.split(); j['mutation_run']="tools/mutation_run.sh (scratch worktree of /repo HEAD, VERIF_REPO/VERIF_OUT, quick tier, VERIF_SEED default)"
json.dump(j,open(p,'w'),indent=1)
PY
  [ -n "$KEEP" ] && { mkdir -p /tmp/mutkeep; cp -r $out /tmp/mutkeep/$id; }
  git -C /repo worktree remove --force $wt; rm -rf $out /verif/.bin/*$(echo $wt | tr '/' '_')*
done
