#!/bin/bash
# usage: tools/adopt_seeded.sh <PROP> <A|B>   — confirms a seeded mutant from /tmp/wt/<PROP>/_out/<X> in a scratch worktree
# of /repo's HEAD (suite passes with the change; demo fails with it and passes without) and stores it under /verif/seeded/<PROP>-<X>/.
set -u
PROP=$1; X=$2
# optional: SRC_ROOT (default /tmp/wt) and NAME (default $X) for later rounds, e.g. SRC_ROOT=/tmp/wt2 NAME=C
SRC=${SRC_ROOT:-/tmp/wt}/$PROP/_out/$X
X=${NAME:-$X}
DST=/verif/seeded/$PROP-$X
WT=/tmp/adopt-$PROP-$X
export GOFLAGS=-mod=mod GOPROXY=off GOSUMDB=off GOTOOLCHAIN=local
[ -f $SRC/patch.diff ] || { echo "no patch for $PROP $X"; exit 2; }
git -C /repo worktree remove --force $WT 2>/dev/null
git -C /repo worktree add -q --detach $WT HEAD || exit 2
cd $WT
PATCH=$SRC/patch.diff
[ -f /tmp/rebased/$PROP-$X.diff ] && PATCH=/tmp/rebased/$PROP-$X.diff
if ! git apply --check $PATCH 2>/dev/null; then
  if git apply -3 $PATCH 2>/dev/null && ! grep -rl '^<<<<<<<' --include=*.go . >/dev/null; then git reset -q; else echo "RESULT $PROP-$X patch does not apply to current HEAD"; git -C /repo worktree remove --force $WT; exit 9; fi
else git apply $PATCH; fi
git diff > /tmp/adopt-$PROP-$X.diff
ran=()
if go build ./... 2>/dev/null && go test -vet=off -count=1 -timeout 25m ./... > /tmp/adopt-$PROP-$X.suite 2>&1; then suite=pass; else suite=fail; fi
if [ $suite = fail ] && go build ./... 2>/dev/null; then
  # the suite has timing-based tests that fail now and then on a loaded machine: the failing packages get two more runs
  pk=$(grep -E '^(FAIL|---)' /tmp/adopt-$PROP-$X.suite | grep -oE 'github.com/orbs-network/lean-helix-go[^[:space:]]*' | sort -u | sed 's|github.com/orbs-network/lean-helix-go|.|')
  if [ -n "$pk" ] && go test -vet=off -count=1 -timeout 25m $pk > /tmp/adopt-$PROP-$X.suite2 2>&1 && go test -vet=off -count=1 -timeout 25m $pk >> /tmp/adopt-$PROP-$X.suite2 2>&1; then suite=pass; ran+=("suite: a package failed once on the loaded machine and passed twice when re-run: $pk"); fi
fi
ran+=("suite with change: $suite")
demo_dir=$(python3 -c "import json;d=json.load(open('$SRC/meta.json')).get('demo_dir','') or '';d=d.split()[0] if d.split() else '';print(d.strip('/'))")
[ -z "$demo_dir" ] && demo_dir=.
[ "$demo_dir" = "repo root" ] && demo_dir=.
demo_dir=${demo_dir#./}; case "$demo_dir" in *" "*|"") demo_dir=. ;; esac; mkdir -p "$WT/$demo_dir"
cp $SRC/demo_test.go $WT/$demo_dir/zz_seeded_demo_test.go
if (cd $WT/$demo_dir && go test -vet=off -count=1 -timeout 10m -run 'C[0-9][0-9]' . > /tmp/adopt-$PROP-$X.demo1 2>&1); then with=pass; else with=fail; fi
ran+=("demo with change: $with")
git checkout -q -- . 
if (cd $WT/$demo_dir && go test -vet=off -count=1 -timeout 10m -run 'C[0-9][0-9]' . > /tmp/adopt-$PROP-$X.demo0 2>&1); then without=pass; else without=fail; fi
ran+=("demo without change: $without")
echo "RESULT $PROP-$X suite=$suite demo_with=$with demo_without=$without dir=$demo_dir"
if [ $suite = pass ] && [ $with = fail ] && [ $without = pass ]; then
  mkdir -p $DST
  cp /tmp/adopt-$PROP-$X.diff $DST/patch.diff
  cp $SRC/demo_test.go $DST/demo_test.go.txt
  python3 - "$SRC/meta.json" "$DST/meta.json" "$PROP" "$X" "$demo_dir" <<'PY'
import json,sys,subprocess
src,dst,prop,x,d=sys.argv[1:6]
m=json.load(open(src))
out={"property":prop,"id":prop+"-"+x,"summary":m.get("summary"),"needs_to_manifest":m.get("needs_to_manifest"),"why_existing_tests_pass":m.get("why_existing_tests_pass"),
 "demo_dir":d,"demo_cmd":"go test -vet=off -count=1 -run 'C[0-9][0-9]' ./"+d,
 "base_commit":subprocess.check_output(["git","-C","/repo","rev-parse","--short","HEAD"]).decode().strip(),
 "confirmed_by_me":["applied patch.diff in a scratch worktree of /repo HEAD","go build ./... && go test -vet=off -count=1 ./... : all packages pass with the change","demo_test.go copied into demo_dir: FAILS with the change","patch reverted: demo PASSES"],
 "caught_by":[]}
json.dump(out,open(dst,"w"),indent=1)
PY
fi
git -C /repo worktree remove --force $WT
