#!/bin/bash
# usage: [ROUND=3] tools/round2.sh <PROP> ...  — adopt later-round seeded changes (round 2: A->C, B->D from /tmp/wt2;
# round 3: A->E, B->F from /tmp/wt3) and run the mutation self-test on them
R=${ROUND:-2}
if [ "$R" = 11 ]; then ROOT=/tmp/wt11; N1=U; N2=V; elif [ "$R" = 10 ]; then ROOT=/tmp/wt10; N1=S; N2=T; elif [ "$R" = 9 ]; then ROOT=/tmp/wt9; N1=Q; N2=R; elif [ "$R" = 8 ]; then ROOT=/tmp/wt8; N1=O; N2=P; elif [ "$R" = 7 ]; then ROOT=/tmp/wt7; N1=M; N2=N; elif [ "$R" = 5 ]; then ROOT=/tmp/wt5; N1=I; N2=J; elif [ "$R" = 6 ]; then ROOT=/tmp/wt6; N1=K; N2=L; elif [ "$R" = 4 ]; then ROOT=/tmp/wt4; N1=G; N2=H; elif [ "$R" = 3 ]; then ROOT=/tmp/wt3; N1=E; N2=F; else ROOT=/tmp/wt2; N1=C; N2=D; fi
for p in "$@"; do
  for pair in "A $N1" "B $N2"; do set -- $pair
    [ -f $ROOT/$p/_out/$1/patch.diff ] || continue
    [ -d /verif/seeded/$p-$2 ] && continue
    SRC_ROOT=$ROOT NAME=$2 /verif/tools/adopt_seeded.sh $p $1
    [ -d /verif/seeded/$p-$2 ] && /verif/tools/mutation_run.sh $p-$2
  done
done
