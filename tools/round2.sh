#!/bin/bash
# usage: tools/round2.sh <PROP> ...  — adopt round-2 seeded changes (A->C, B->D) and run the mutation self-test on them
for p in "$@"; do
  for pair in "A C" "B D"; do set -- $pair
    [ -f /tmp/wt2/$p/_out/$1/patch.diff ] || continue
    [ -d /verif/seeded/$p-$2 ] && continue
    SRC_ROOT=/tmp/wt2 NAME=$2 /verif/tools/adopt_seeded.sh $p $1
    [ -d /verif/seeded/$p-$2 ] && /verif/tools/mutation_run.sh $p-$2
  done
done
