#!/usr/bin/env python3
"""Regenerates /verif/MANIFEST.json from the table below (kept valid at all times)."""
import json, subprocess, os
ROOT = os.path.dirname(os.path.dirname(os.path.abspath(__file__)))
props = [json.loads(l) for l in open(os.path.join(ROOT, 'properties.jsonl'))]

SIM_NOTE = ("Trusted base: HMAC key manager as signature scheme, generated membuffers readers, the ~10 duplicated lines of the verif hook "
            "(worker select arms) and the sim's mimic of MainLoop's context cancellation; rt checks exercise the real loops.")

checks = {
 'C01': dict(engine='sim', technique='runtime monitor: online agreement oracle over commit callbacks of real nodes under a randomized Byzantine scheduler',
             text='Exploration: thousands of randomized adversarial executions of real WorkerLoops (committees, weights, leader orders, Byzantine subsets <= f, drops/dups/reorder/timeouts, attack-shaped strategies incl. equivocation, forged/twisted NEW_VIEWs, replays); an online monitor compares every commit callback per height. Held on the executions observed; not a proof.', ref='4/C01'),
 'C03': dict(engine='sim', technique='runtime monitor: every committed (block, proof) re-validated on a peer and by a reference certificate predicate',
             text='Exploration: at every commit callback of every adversarial execution the pair is validated strictly on another correct node and by an independent reference predicate; also checked that the proof does not certify another block.', ref='4/C03'),
 'C04': dict(engine='sim', technique='runtime monitor: commit events joined with per-node validation log and wire log',
             text='Exploration: every committed block is joined with the ValidateBlockProposal / RequestNewBlockProposal history of correct nodes and with the proposals on the wire; Byzantine leaders propose consumer-rejected and wrong-height blocks in view 0 and inside NEW_VIEWs.', ref='4/C04'),
 'C07': dict(engine='sim', technique='runtime monitor: acts in views above 0 judged against a reference NEW_VIEW validator over the node\'s input history',
             text='Exploration: every PREPARE sent / proposal stored by a correct node in a view above 0 must be preceded by a delivered NEW_VIEW passing an independent reference validator (leader signature, authentic distinct quorum votes, highest valid proof re-proposed, fresh block consumer-validated); leader side judged too.', ref='4/C07'),
 'C08': dict(engine='sim', technique='runtime monitor: Store* calls judged for authenticity; must-ignore deliveries checked for effects (differential reference predicate)',
             text='Exploration: field-by-field mutations, envelope swaps, outsiders, cross-instance/height/view replays delivered to live nodes; every stored message must be authentic/in-committee/role- and height-correct, and a delivery the reference says must be ignored must cause no store, send, view change or callback.', ref='4/C08'),
 'C09': dict(engine='sim', technique='runtime monitor: offline-style check of each outgoing VIEW_CHANGE / NEW_VIEW against the node\'s own input and output log',
             text='Exploration: every VIEW_CHANGE sent after the node held a prepared certificate must carry a valid proof of its highest prepared view with the matching block; every NEW_VIEW of a correct leader must embed exactly the counted votes and re-propose the block of the highest-view proof.', ref='4/C09'),
 'C10': dict(engine='sim', technique='runtime monitor: per-node outgoing signature stream checker',
             text='Exploration: on each correct node\'s outgoing stream: single-valued PREPREPARE/PREPARE/COMMIT hash per (h,v), PREPARE only for a leader-signed proposal and never as leader, COMMIT only with a reference-counted prepared certificate or commit quorum, VIEW_CHANGE views strictly increasing, nothing for views below the current one.', ref='4/C10'),
 'C11': dict(engine='sim', technique='runtime monitor: acceptance oracle at every delivery of a correct node\'s message to a correct peer in a matching state',
             text='Exploration: each delivery of an honest NEW_VIEW / VIEW_CHANGE / PREPARE / COMMIT to a correct peer meeting the stated precondition at that moment must have the expected effect (adoption, vote/prepare/commit stored), with the adversary poisoning what correct nodes emit.', ref='4/C11'),
}


UNIT_NOTE = "Trusted base: math/big (arithmetic reference), the generated membuffers readers, Go's runtime timers and goroutine profile."
checks.update({
 'C06': dict(engine='unit', note=UNIT_NOTE, technique='runtime differential monitor: real quorum functions next to a math/big reference on enumerated and boundary weight vectors',
             text='Exploration, exhaustive in the small: every weight vector of 4..5 members with small weights and every subset/pair of subsets, plus boundary totals up to 2^64-1 and random vectors; thresholds, subset verdicts, pairwise quorum intersection > f, attainability, monotonicity and immunity to duplicate/stranger/zero-weight ids are compared with big-integer arithmetic.', ref='4/C06'),
 'C18': dict(engine='unit+sim', technique='runtime monitor: leader function tabulated against committee[view mod n]; VIEW_CHANGE destinations judged in sim executions',
             text='Exploration: the real leader function for n=4..64 over dense small views, powers of two, neighbourhoods of 2^31, 2^32, 2^63, 2^64-1 and random views (panics caught), and behaviour in randomized executions (vote destinations, who collects, who sends NEW_VIEW).', ref='4/C18'),
 'C19': dict(engine='unit', note=UNIT_NOTE, technique='runtime monitor: timeout formula against math/big; trace checker over Register/Stop/read scripts on the real timer trigger',
             text='Exploration: CalcTimeout for 8 bases x ~400 views against min(base*2^v, MaxInt64); random scripts on the real TimerBasedElectionTrigger with the harness as channel reader judged by an online trace checker (one trigger per arming, exact pair, not early, handler called with its pair, armed timer delivers, no goroutine left).', ref='4/C19'),
 'C20': dict(engine='unit', note=UNIT_NOTE, technique='runtime monitor: build -> raw -> parse round trip compared field by field with generator inputs, signatures re-verified',
             text='Exploration: tens of thousands of generated messages of all five types (nested proofs, 0..20 votes/prepare senders, 0..256-byte ids/hashes/signatures/shares, 64-bit boundary values) and block proofs; every field and signature compared after the round trip; two parses of the same bytes compared.', ref='4/C20'),
})

checks.update({
 'C02': dict(engine='unit', note=UNIT_NOTE + " HMAC key manager as signature scheme.", technique='runtime differential monitor: real ValidateBlockConsensus next to a reference certificate predicate on synthesised, mutated and corrupted proofs',
             text='Exploration: proofs synthesised for height-dependent weighted committees (signer sets exactly at the strict and soft boundaries, duplicates, outsiders, zero and >2^53 weights), mutated field by field and byte by byte, judged in both modes: accepted-but-not-reference or any panic is a violation.', ref='4/C02'),
 'C15': dict(engine='unit', note=UNIT_NOTE + " porcupine v1.3.0.", technique='runtime monitor: exhaustive operation sequences on the real context registry next to a reference model; porcupine linearizability check of concurrent histories',
             text='Exploration, exhaustive in the small: every For/CancelOlderThan/Shutdown sequence up to length 5 (6 thorough) over 9 positions, laws checked after every step; 3-client concurrent histories checked for linearizability against the same model.', ref='4/C15'),
 'C17': dict(engine='unit', note=UNIT_NOTE, technique='runtime monitor: exhaustive and random operation sequences on the real RawMessageFilter with recording per-term handlers, judged by a reference delivery model',
             text='Exploration, exhaustive in the small: every receive/advance sequence up to length 5 (6 thorough) incl. handlers that start the next height while a cached batch is consumed, plus long random sequences; every handler call judged (own height/instance/sender, exactly once, arrival order, timing) and cached messages judged for loss.', ref='4/C17'),
})

checks.update({
 'C05': dict(engine='sim', technique='runtime monitor: bounded-progress and completeness oracle over a stabilised tail (virtual doubling timers, zero-latency delivery) appended to random adversarial prefixes',
             text='Exploration of a restated (view-bounded) liveness: after a random adversarial prefix the scheduler delivers every in-flight message before the next virtual timer (base*2^view) expires; judged: a correct node commits before any correct node exceeds view vmax+2n+2, and every correct acceptor of a post-stabilisation committing view (joined by correct quorum weight) commits. Unbounded "eventually" is out of reach of runtime monitoring; this is the bounded form.', ref='4/C05'),
})

RT_NOTE = ("Trusted base: Go race detector, Go runtime goroutine profile, HMAC key manager; wall clock only in 10-20 s watchdogs whose firing is reported with goroutine evidence; "
           "the Logger SPI is used as an iteration clock (worker announces each dequeued message) and as a delay injector, never as a verdict.")
checks.update({
 'C12': dict(engine='sim+rt', note=SIM_NOTE + " " + RT_NOTE, technique='runtime monitor: hostile inputs into real worker loops (panic observer hook, bounded-progress tail) and into the real runtime under -race (recovered-panic scan, victim progress, flood)',
             text='Exploration: >100k hostile inputs per quick run (random/truncated/corrupted bytes, extreme views/heights, empty ids/proofs, missing blocks, field mutations) at PRNG-chosen points; a panic escaping the worker or recovered while handling a fully decodable message is a violation; attacked nodes must still commit in a quiet stabilised tail; on the real runtime no panic may reach the supervising loops, the victim keeps committing, a 1000+ message flood while the worker is parked must not wedge the main loop.', ref='4/C12'),
 'C13': dict(engine='sim+rt', note=SIM_NOTE + " " + RT_NOTE, technique='runtime monitor: offline checker of callback sequences and sampled (height, view) per node, on sim schedules and on the real runtime under -race',
             text='Exploration: commit-callback and new-round-callback heights strictly increasing, rounds only above committed heights, sampled (height, view) never decreasing, view 0 at a new height; over every message order the sim produces (with syncs and commit failures) and on the real two-goroutine runtime with delays injected around height changes.', ref='4/C13'),
 'C14': dict(engine='rt', note=RT_NOTE, technique='runtime monitor: UpdateState sequences on a real node with parking SPI fakes, judged after 64 witnessed worker iterations (logical quiescence)',
             text='Exploration: stale / equal / newer / burst syncs while SPI calls park on their context and dawdle on release, delays injected between cancel-contexts and forward; the newest eligible sync must have taken effect, stale ones nothing, no first-leader proposal in a round entered by sync, UpdateState returns.', ref='4/C14'),
 'C16': dict(engine='rt', note=RT_NOTE, technique='runtime monitor: crash-point style cancellation of live real networks under -race; post-shutdown event scan and goroutine-profile diff',
             text='Exploration: cancellation at an arbitrary moment of randomized live runs (timers armed, SPI calls in flight, syncs, elections): WaitUntilShutdown returns, API calls with the cancelled context return, no callback / send afterwards, no library goroutine left.', ref='4/C16'),
})
checks['C15']['engine']='unit+rt'; checks['C15']['note']=UNIT_NOTE+" porcupine v1.3.0. "+RT_NOTE
checks['C15']['text']+=' Runtime half: a real node with SPI calls parked on their context; stale triggers must not cancel the current context, the own trigger / a sync must (judged after a main-loop barrier), a block returned under a cancelled context is never broadcast, shutdown releases everything.'
checks['C19']['engine']='unit+rt'; checks['C19']['note']=UNIT_NOTE+" "+RT_NOTE
checks['C19']['text']+=' System level: the real trigger decorated in live networks: an election action reaches the term only for the currently registered pair, once per arming, not before the timeout.'


# ---- round-5 extensions
checks['C02']['engine']='unit+rt'; checks['C02']['note']=UNIT_NOTE+" HMAC key manager as signature scheme. "+RT_NOTE
checks['C02']['technique']+='; overlapping validations on one node under the Go race detector'
checks['C02']['text']+=' Committees keyed by the previous block\'s reference time in half of the worlds. Runtime half: a fixed list of certificates with reference verdicts validated by 4..8 goroutines at once on one node in the race-built driver (ValidateBlockConsensus is called from the consumer\'s goroutines): every answer judged, a data race on library state is a violation.'
FAR=' Far views: a scripted single-node workload at views next to 2^31, 2^32, 2^63 and 2^64-1 (election with prepared proofs on both sides of those boundaries, adoption, prepared state, election timeouts up to and including the one fired in view 2^64-1) judged by the same monitors.'
checks['C09']['text']+=FAR
checks['C13']['text']+=FAR+' Scripted commits on the real runtime with a parked commit callback and node syncs arriving in that window.'
checks['C18']['text']+=FAR+' Role decisions (who may send PREPARE / PREPREPARE / collect votes for a view) judged against position view mod n, also for views ahead of the receiver.'
checks['C12']['text']+=' Also: PREPARE / COMMIT correctly signed by a committee member whose hash length field wraps past 2^32 (fails in the first lazy reader), followed by a probe of the node\'s storage accessors (a lock leaked by a recovered panic); a differential script (valid traffic with and without malformed messages inserted, also ahead of the cached batch: every effect of the control copy must appear); node sync with height 2^64-1 followed by a sync that must still take effect.'
checks['C14']['text']+=' Second scenario: a node following a scripted committee commits by consensus while its commit callback is parked and syncs (below / at / above the height, bursts, 2^64-1) arrive in that window; a sync below the current height must not change the outcome of the commit.'
checks['C15']['text']+=' Validations parked too (view-0 proposal, fresh block of a NEW_VIEW for the view the node timed out into); the commit callback\'s context judged under syncs and shutdown.'
checks['C16']['text']+=' Plus scripted shutdowns while the transport is slow inside the send of the node\'s COMMIT (no library goroutine may still be in SendConsensusMessage when WaitUntilShutdown returns) and while the commit callback waits on the context it was handed.'
checks['C06']['text']+=' Committees of 65..204 members with id multisets repeating members at any position.'
checks['C20']['text']+=' The block travelling next to the content is compared on the typed message parsed back and after a second raw->typed->raw leg.'


# ---- rounds 6-7 extensions
checks['C07']['engine']='sim+rt'; checks['C07']['note']=SIM_NOTE+" "+RT_NOTE
checks['C07']['text']+=' Leader side: the proposal must be the block of the highest valid proof among the embedded authentic votes. Runtime half (rt ctx): a validation of a NEW_VIEW\'s fresh block that ends under a cancelled context must not lead to the proposal being adopted.'
checks['C08']['engine']='sim+rt'; checks['C08']['note']=SIM_NOTE+" "+RT_NOTE
checks['C08']['text']+=' Proofs stitched from two views, outsiders sharing the members\' id prefix, a parallel instance with id 0 / 2^64-1 / ours+-1, a third of the cases with split hand-off and syncs over three heights. Runtime half: the term that handles a COMMIT is identified by the random seed its share is verified against (live networks; a sync overtaking a round that is being set up).'
checks['C11']['engine']='sim+rt'; checks['C11']['note']=SIM_NOTE+" "+RT_NOTE
checks['C11']['text']+=' Runtime half (rt ctx): a leader whose proposal request was cancelled and returned no block must not announce the view.'
checks['C17']['engine']='unit+sim+rt'; checks['C17']['note']=UNIT_NOTE+" "+SIM_NOTE+" "+RT_NOTE
checks['C17']['text']+=' Also at heights next to 2^31, 2^32, 2^63 and 2^64-1; worker level in sim executions with split hand-off; on the real runtime the handling term of every COMMIT is identified by its seed.'
checks['C02']['text']+=' A committee lookup that fails between two validations must fail that validation and leave nothing behind for the next.'
checks['C04']['text']+=' Blocks on which the consumer\'s validator crashes are never approvals; a signed proposal approved on its own and later embedded in a NEW_VIEW next to another block.'
checks['C05']['text']+=' The transport reports errors for sends that went out; a valid Byzantine NEW_VIEW preceded by its leader\'s own PREPARE.'
checks['C18']['text']+=' An ordered-committee request that fails several times before it answers (the unordered block-proof committee is handed out in another order) must not change the rotation.'
checks['C15']['text']+=' The ctx scenario runs at heights 1..3 with late triggers of the earlier height.'


# ---- round 8 extensions
checks['C06']['engine']='unit+sim'; checks['C06']['note']=UNIT_NOTE+" "+SIM_NOTE
checks['C06']['technique']+='; quorum decisions of the protocol judged in sim executions against the reference weights'
checks['C06']['text']+=' Behavioural half: in randomized adversarial executions every COMMIT a correct node sends and every view it announces must rest on senders the reference weighs at W-f or more.'
checks['C03']['engine']='sim+rt'; checks['C03']['note']=SIM_NOTE+" "+RT_NOTE
checks['C03']['text']+=' Runtime half: the committed pairs of live networks validated (strict) through the API of running nodes, on the consumer\'s goroutine, under the race detector.'
checks['C05']['engine']='sim+rt'; checks['C05']['note']=SIM_NOTE+" "+RT_NOTE
checks['C05']['text']+=' Runtime half: election triggers must be acted upon — with a stale trigger in the worker\'s slot, when fired during the handling of the sync that started the round, and when an older view\'s validation is still waiting on its context.'
checks['C14']['text']+=' A storm of 12-18 thousand back-to-back UpdateState calls from two callers next to junk traffic and state readers: every call returns, the newest takes effect.'
checks['C19']['text']+=' Scripts include saturated views; an API panic is a finding; a superseded arming\'s trigger must not be readable once the superseding call has returned.'
checks['C20']['text']+=' Proofs whose PREPAREs were signed over another view / hash than the proposal; other messages built by the same factory between a proposal\'s content and the NEW_VIEW embedding it; parsing independent of the envelope\'s history.'

# ---- round 9 extensions
checks['C17']['text']+=' Worker level also judges the future cache: a PREPARE / COMMIT of a correct member received for a height ahead (nothing higher received before it or since) must reach the protocol logic of that height\'s term when the node starts it as a committee member; a member may sit out one height and re-join.'
checks['C08']['text']+=' A NEW_VIEW whose only forged vote is in the receiver\'s own name; syncs without the previous block\'s proof (the node\'s share seed differs from everyone else\'s, kept per node by the reference).'
checks['C13']['text']+=' Commit-callback failures include panics of the consumer\'s callback.'
checks['C14']['text']+=' Every other UpdateState call is made with a request-scoped context cancelled right after the call returned.'
checks['C15']['text']+=' An election trigger that arrives while a stale sync waits in the worker\'s inbox and the worker is inside ValidateBlockProposal must still cancel that call\'s context.'
checks['C18']['text']+=' Transport errors in the sim workload (a failed vote is never re-addressed); the same member\'s NEW_VIEW one rotation later while its earlier proposal is held.'
checks['C07']['text']+=' Byzantine NEW_VIEWs that re-propose a block of a lower view against a higher proof among their votes.'

# ---- round 10 extensions
checks['C15']['engine']='unit+sim+rt'; checks['C15']['note']=UNIT_NOTE+" porcupine v1.3.0. "+SIM_NOTE+" "+RT_NOTE
checks['C15']['text']+=' Sim half: with the main-loop -> worker hand-off split in two steps, a commit callback entered under an already cancelled context means a context was handed out for a superseded height.'
checks['C04']['text']+=' Proofs with both block references and no signature at all.'
checks['C06']['text']+=' One committee slice re-filled in place with other weights between evaluations.'
checks['C07']['text']+=' A surplus vote (forged, signature-less, or genuine of the parallel instance) behind a quorum of genuine votes; leader proposals that are neither certified by an embedded vote nor freshly requested.'
checks['C08']['text']+=' Proofs glued from two heights; NEW_VIEWs built from the genuine votes of one rotation earlier.'
checks['C11']['text']+=' A message the node\'s log turns down although it does not hold it counts as not counted; floods of genuinely signed votes for many distinct future views precede honest traffic.'
checks['C12']['text']+=' A received PREPARE / COMMIT that leaves the node in its (height, view) must not touch that view\'s election timer; a block factory that returns no block under a live context.'
checks['C14']['text']+=' Every fifth call is preceded by an abandoned attempt with the same block.'
checks['C17']['text']+=' Traffic of the height a sync starts, handed in while the worker is busy and before that sync, must reach that height\'s term.'
checks['C10']['text']+=' Three heights, so that a member sits out one and is back for the next.'

# ---- round 11 extensions
checks['C14']['engine']='rt+sim'; checks['C14']['note']=RT_NOTE+" "+SIM_NOTE
checks['C14']['text']+=' Sim half: in executions with commit-callback failures, node syncs of every height and the split hand-off, the round entered by a sync above height 1 is never started as a first-leader round.'
checks['C02']['text']+=' A committee request cancelled while pending is not an acceptance; size prefixes that wrap past 2^32 at every aligned offset.'
checks['C03']['text']+=' A tenth of the headers the adversary signs with its own keys are encoded non-canonically (the repaired defect 282baa4).'
checks['C04']['text']+=' Validator rejections reported as deadline-flavoured errors under a live context.'
checks['C05']['text']+=' A node whose log holds a proposal with its block and COMMITs of quorum weight has committed it.'
checks['C07']['text']+=' In split hand-off worlds the main loop may handle the election timer in the middle of a message handler (between two signature verifications).'
checks['C12']['text']+=' Thousands of lag-and-sync episodes (messages cached for heights the node then jumps over) with periodic probes of the future cache; transport errors.'
checks['C15']['text']+=' Long registry sequences with dozens of contexts live at once; the next view\'s context created by an early proposal before the current call parks.'
checks['C17']['text']+=' Lag-and-sync episodes with periodic probes of the future cache.'
checks['C18']['text']+=' Votes for the node\'s next turn one rotation later arrive before the same members\' votes for the current one.'
checks['C20']['text']+=' Parsing must not write behind the content it was given (content inside a larger buffer with a sentinel behind it).'

def cmd(pid, tier):
    return "./check %s --tier %s" % (pid, tier)

manifest = {
 "version": 1,
 "setup_cmd": "./setup.sh",
 "hooks": {
  "guard": "verif",
  "enable": "go build -tags verif (hook files carry //go:build verif); every check command rebuilds its driver from /repo's working tree with that tag",
  "baseline_off_cmd": "cd /repo && GOFLAGS=-mod=mod GOPROXY=off GOSUMDB=off GOTOOLCHAIN=local go test -json -vet=off -count=1 -timeout 25m ./...",
  "source_commits": ["289c81c", "3fadb80", "8446585", "158c908", "5242047", "a9515bc"],
  "add_only": True,
 },
 "engines": [
  {"name": "sim", "path": "sim/", "serves_properties": ["C01","C03","C04","C05","C06","C07","C08","C09","C10","C11","C12","C13","C14","C15","C17","C18"], "kind_free_text": "deterministic single-threaded scheduler over N real WorkerLoops (verif hooks), Byzantine adversary with own keys + replay, online monitors over the SPI event log"},
  {"name": "rt", "path": "rt/", "serves_properties": ["C02","C03","C05","C07","C08","C11","C12","C13","C14","C15","C16","C17","C19"], "kind_free_text": "real MainLoop + WorkerLoop + timer trigger of 1..5 nodes in child processes built with -race: router with loss/dup/delay, parking SPI fakes, log-keyed delay injection, API driver, main-loop barrier and worker-iteration witness"},
  {"name": "unit", "path": "unit/", "serves_properties": ["C02","C06","C15","C17","C18","C19","C20"], "kind_free_text": "real function / component run on generated and enumerated inputs next to an independent reference oracle (math/big, sequential models, semantic re-parse)"},
 ],
 "checks": [],
 "notes": "Runtime monitoring family: every check is an oracle observing executions of the real code. See DESIGN.md. Known findings: known_findings.jsonl.",
 "not_applicable": [],
}
for p in props:
    pid = p['id']
    if pid in checks:
        c = checks[pid]
        manifest['checks'].append({
            "property_id": pid,
            "quick_cmd": cmd(pid, 'quick'),
            "thorough_cmd": cmd(pid, 'thorough'),
            "evidence_file": "/verif/evidence/%s.json" % pid,
            "replay_cmd_template": "./check %s --replay {path}" % pid,
            "engine": c['engine'],
            "level_claimed": {"category": c.get('category', 'exploration'), "text": c['text'], "design_ref": "DESIGN.md section " + c['ref']},
            "level_note": c.get('note', SIM_NOTE),
            "technique": c['technique'],
        })
    else:
        manifest['not_applicable'].append({"property_id": pid, "reason": "check not registered yet (being built; see DESIGN.md)"})
json.dump(manifest, open(os.path.join(ROOT, 'MANIFEST.json'), 'w'), indent=1)
print("checks:", len(manifest['checks']), "not_applicable:", len(manifest['not_applicable']))
