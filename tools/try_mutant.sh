#!/bin/sh
# usage: tools/try_mutant.sh <patch.diff> <check id>...   — applies the patch to /repo, runs the quick checks, reverts.
P="$1"; shift
cd /repo || exit 2
if ! git apply --check "$P" 2>/dev/null; then
  if ! git apply --check -3 "$P" 2>/dev/null; then echo "PATCH DOES NOT APPLY: $P"; exit 9; fi
  git apply -3 "$P" 2>/dev/null; git reset -q
else
  git apply "$P"
fi
git diff --stat | tail -1
cd /verif
for id in "$@"; do
  out=$(./check $id --tier quick 2>&1); rc=$?
  echo "== $id exit=$rc"; echo "$out" | grep -E "^VIOLATION|^  rule=|^INCONCLUSIVE|^KNOWN|^OK|panic|build failed" | cut -c1-260 | head -8
done
git -C /repo checkout -- . 
git -C /repo status --short | head -3
