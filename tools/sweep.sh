#!/bin/bash
# usage: tools/sweep.sh <seed> [tier] [ids...] — runs the checks on the unchanged tree at one VERIF_SEED and prints one line per check
seed=$1; tier=${2:-quick}; shift; shift
ids="$@"; [ -z "$ids" ] && ids="C01 C02 C03 C04 C05 C06 C07 C08 C09 C10 C11 C12 C13 C14 C15 C16 C17 C18 C19 C20"
mkdir -p /tmp/sweep
for id in $ids; do
  s=$(date +%s); VERIF_SEED=$seed ./check $id --tier $tier > /tmp/sweep/$id-$seed-$tier.log 2>&1; rc=$?; e=$(date +%s)
  echo "$id seed=$seed tier=$tier exit=$rc $((e-s))s $(grep -E '^VIOLATION|^INCONCLUSIVE' /tmp/sweep/$id-$seed-$tier.log | head -2 | cut -c1-200)"
done
