package rt

import (
	"context"
	"fmt"
	"math/rand"
	"sync/atomic"
	"time"

	"github.com/orbs-network/lean-helix-go/spec/types/go/primitives"

	"verif/spi"
)

// RunFlood (C12): while the worker is parked inside an SPI call, far more messages than the worker's
// inbox holds arrive. Neither HandleConsensusMessage nor the main loop may wedge: a following
// UpdateState must return and take effect.
func RunFlood(seed int64, idx int) *Result {
	rng := rand.New(rand.NewSource(seed))
	o := &Opts{N: 4, NoRouter: true}
	net := NewNet(seed, o)
	nd := net.Nodes[0]
	g := newGate()
	nd.BU.OnRequest = func(ctx context.Context, h uint64) { g.wait(ctx) }
	burst := 1050 + rng.Intn(400)
	desc := fmt.Sprintf("single node, worker parked in RequestNewBlockProposal, %d messages", burst)
	nd.Start()
	nd.ML.UpdateState(nd.ctx, nil, nil) // height 1: n00 leads view 0 and parks in RequestNewBlockProposal
	for i := 0; i < 20000 && atomic.LoadInt32(&g.parked) == 0; i++ {
		time.Sleep(100 * time.Microsecond)
	}
	done := make(chan int, 1)
	go func() {
		n := 0
		for i := 0; i < burst; i++ {
			nd.ML.HandleConsensusMessage(nd.ctx, nd.ping.CreatePrepareMessage(1, primitives.View(5000+i), []byte("flood")).ToConsensusRawMessage())
			n++
		}
		done <- n
	}()
	net.count("C12 floods judged")
	select {
	case <-done:
	case <-time.After(15 * time.Second):
		net.violate("C12", "message-flood-wedges-the-node", "HandleConsensusMessage stopped returning after part of a burst of %d messages sent while the worker was inside an SPI call (the worker's inbox holds 1000)", burst)
	}
	ok := make(chan struct{})
	go func() {
		nd.ML.UpdateState(nd.ctx, &spi.Blk{H: 1, Body: "synced"}, nil)
		close(ok)
	}()
	select {
	case <-ok:
		g.Open()
		if nd.Witness(32) == 32 {
			if h, _ := nd.HV(); h < 2 {
				net.violate("C12", "node-disabled-after-message-flood", "after the flood UpdateState(block 1) returned but the node is still at height %d", h)
			}
		}
	case <-time.After(15 * time.Second):
		net.violate("C12", "message-flood-wedges-the-node", "UpdateState did not return after a burst of %d messages: the main loop is wedged", burst)
	}
	g.Open()
	nd.Cancel()
	c2, cancel2 := context.WithTimeout(context.Background(), 5*time.Second)
	nd.Waiter.WaitUntilShutdown(c2)
	cancel2()
	return net.result("flood", idx, seed, desc)
}
