package rt

import (
	"context"
	"fmt"
	"math/rand"
	"runtime"
	"sync/atomic"
	"time"

	"github.com/orbs-network/lean-helix-go/spec/types/go/primitives"

	"verif/spi"
)

// RunFlood (C12): while the worker is parked inside an SPI call, far more messages than the worker's
// inbox holds arrive. Neither HandleConsensusMessage nor the main loop may wedge: a following
// UpdateState must return and take effect.
func RunFlood(seed int64, idx int) *Result {
	rng := rand.New(rand.NewSource(seed))
	o := &Opts{N: 4, NoRouter: true}
	net := NewNet(seed, o)
	nd := net.Nodes[0]
	g := newGate()
	nd.BU.OnRequest = func(ctx context.Context, h uint64) { g.wait(ctx) }
	burst := 1050 + rng.Intn(400)
	desc := fmt.Sprintf("single node, worker parked in RequestNewBlockProposal, %d messages", burst)
	nd.Start()
	nd.Sync(nil, nil) // height 1: n00 leads view 0 and parks in RequestNewBlockProposal
	for i := 0; i < 20000 && atomic.LoadInt32(&g.parked) == 0; i++ {
		time.Sleep(100 * time.Microsecond)
	}
	done := make(chan int, 1)
	go func() {
		n := 0
		for i := 0; i < burst; i++ {
			nd.ML.HandleConsensusMessage(nd.ctx, nd.ping.CreatePrepareMessage(1, primitives.View(5000+i), []byte("flood")).ToConsensusRawMessage())
			n++
		}
		done <- n
	}()
	net.count("C12 floods judged")
	select {
	case <-done:
	case <-time.After(15 * time.Second):
		net.violate("C12", "message-flood-wedges-the-node", "HandleConsensusMessage stopped returning after part of a burst of %d messages sent while the worker was inside an SPI call (the worker's inbox holds 1000)", burst)
	}
	ok := make(chan struct{})
	go func() {
		nd.Sync(&spi.Blk{H: 1, Body: "synced"}, nil)
		close(ok)
	}()
	select {
	case <-ok:
		g.Open()
		if nd.Witness(32) == 32 {
			if h, _ := nd.HV(); h < 2 {
				net.violate("C12", "node-disabled-after-message-flood", "after the flood UpdateState(block 1) returned but the node is still at height %d", h)
			}
		}
	case <-time.After(15 * time.Second):
		net.violate("C12", "message-flood-wedges-the-node", "UpdateState did not return after a burst of %d messages: the main loop is wedged", burst)
	}
	g.Open()
	nd.Cancel()
	c2, cancel2 := context.WithTimeout(context.Background(), 5*time.Second)
	nd.Waiter.WaitUntilShutdown(c2)
	cancel2()
	return net.result("flood", idx, seed, desc)
}

// RunSyncStorm (C14, "UpdateState itself never blocks indefinitely while the loops run"): tens of thousands of UpdateState
// calls with growing heights, back to back from two callers, next to junk consensus traffic and state readers on other
// goroutines — every main-loop / worker hand-off and every lock shared by the two loops is taken thousands of times in
// every relative timing. Each call must return (20 s watchdog per batch); afterwards the node works on a height above the
// highest block.
func RunSyncStorm(seed int64, idx int) *Result {
	rng := rand.New(rand.NewSource(seed))
	o := &Opts{N: 4, NoRouter: true}
	net := NewNet(seed, o)
	nd := net.Nodes[1+rng.Intn(3)]
	total := 12000 + rng.Intn(6000)
	desc := fmt.Sprintf("node %s, %d UpdateState calls from two callers, junk traffic and state readers alongside", nd.Id, total)
	nd.Start()
	nd.Sync(nil, nil)
	stop := make(chan struct{})
	for k := 0; k < 2; k++ { // readers of the observable state (what a host's monitoring does)
		go func() {
			for {
				select {
				case <-stop:
					return
				default:
					nd.HV()
					nd.ML.State().Height()
					runtime.Gosched() // (children also run with GOMAXPROCS=1: the readers must not starve the callers)
				}
			}
		}()
	}
	go func() { // junk traffic through the main loop
		i := 0
		for {
			select {
			case <-stop:
				return
			default:
				h, _ := nd.HV()
				nd.ML.HandleConsensusMessage(nd.ctx, nd.ping.CreatePrepareMessage(primitives.BlockHeight(h), primitives.View(7000+i), []byte("junk")).ToConsensusRawMessage())
				i++
				runtime.Gosched()
			}
		}
	}()
	var next uint64 = 1
	var highest uint64
	progress := make(chan uint64, 1024)
	for c := 0; c < 2; c++ {
		go func() {
			for {
				h := atomic.AddUint64(&next, 1) - 1
				if h > uint64(total) {
					progress <- 0
					return
				}
				nd.Sync(&spi.Blk{H: h, Body: "storm"}, nil)
				for {
					old := atomic.LoadUint64(&highest)
					if h <= old || atomic.CompareAndSwapUint64(&highest, old, h) {
						break
					}
				}
				if h%64 == 0 {
					progress <- h
				}
			}
		}()
	}
	finished := 0
	last := uint64(0)
	wedged := false
	for finished < 2 && !wedged {
		select {
		case h := <-progress:
			if h == 0 {
				finished++
			} else {
				last = h
			}
		case <-time.After(20 * time.Second):
			wedged = true
			hh, vv := uint64(0), uint64(0)
			doneHV := make(chan [2]uint64, 1)
			go func() { a, b := nd.HV(); doneHV <- [2]uint64{a, b} }()
			select {
			case x := <-doneHV:
				hh, vv = x[0], x[1]
			case <-time.After(2 * time.Second):
			}
			net.violate("C14", "update-state-blocks", "after about %d of %d back-to-back UpdateState calls no call has returned for 20 s while the loops run (node state read: height %d view %d)", last, total, hh, vv)
		}
	}
	net.add("C14 UpdateState calls", int(atomic.LoadUint64(&highest)))
	net.count("C14 sync storms judged")
	close(stop)
	if !wedged {
		if nd.Witness(64) == 64 {
			if h, _ := nd.HV(); h <= atomic.LoadUint64(&highest) {
				net.violate("C14", "newest-sync-did-not-take-effect", "after a storm of UpdateState calls up to block %d (all returned nil) and 64 witnessed worker iterations the node is at height %d", atomic.LoadUint64(&highest), h)
			}
		} else {
			net.count("inconclusive: worker iterations not witnessed")
		}
		nd.Cancel()
		c2, cancel2 := context.WithTimeout(context.Background(), 20*time.Second)
		nd.Waiter.WaitUntilShutdown(c2)
		if c2.Err() != nil {
			net.violate("C16", "wait-until-shutdown-did-not-return", "sync storm: WaitUntilShutdown blocked")
		}
		cancel2()
	}
	return net.result("syncstorm", idx, seed, desc)
}
