package rt

import (
	"context"
	"crypto/sha256"
	"fmt"
	"math/rand"
	"runtime/pprof"
	"sort"
	"strings"
	"sync"
	"sync/atomic"
	"time"

	leanhelix "github.com/orbs-network/lean-helix-go"
	"github.com/orbs-network/lean-helix-go/services/interfaces"
	"github.com/orbs-network/lean-helix-go/spec/types/go/primitives"

	"verif/ref"
	"verif/spi"
)

func libGoroutines() (int, []string) {
	var sb strings.Builder
	pprof.Lookup("goroutine").WriteTo(&sb, 2)
	n := 0
	var tops []string
	for _, g := range strings.Split(sb.String(), "\n\n") {
		if !strings.Contains(g, "github.com/orbs-network/lean-helix-go") && !strings.Contains(g, "orbs-network/govnr") {
			continue
		}
		n++
		lines := strings.Split(g, "\n")
		top := ""
		for _, l := range lines[1:] {
			if strings.Contains(l, "lean-helix-go") && !strings.HasPrefix(l, "\t") {
				top = l
				break
			}
		}
		tops = append(tops, top)
	}
	sort.Strings(tops)
	return n, tops
}

func hashPick(seed int64, parts ...interface{}) uint64 {
	h := sha256.Sum256([]byte(fmt.Sprint(append([]interface{}{seed}, parts...)...)))
	return uint64(h[0]) | uint64(h[1])<<8 | uint64(h[2])<<16
}

// RunStress is the main rt scenario: a live network of real nodes under loss, duplication, delay,
// short real election timers, commit-callback failures, node-sync bursts, optional hostile input to
// one node, and shutdown at an arbitrary moment. Judged: C13, C16, C12 (hostile), C19 (system level), C01 sanity.
func RunStress(seed int64, idx int, hostile bool) *Result {
	rng := rand.New(rand.NewSource(seed))
	n := 4 + rng.Intn(2)
	ws := make([]uint64, n)
	for i := range ws {
		ws[i] = uint64(1 + rng.Intn(3))
	}
	delays := map[string]int{}
	for _, k := range []string{"CANCELED WORKER CONTEXT", "INCREMENTED HEIGHT", "UPDATESTATE WORKERLOOP - Received", "Dispose()", "onCommitCallback START", "ConsumeCacheMessages", "PHASE COMMITTED", "WORKERLOOP ELECTION", "Wrote to worker UpdateState channel"} {
		if rng.Intn(2) == 0 {
			delays[k] = 5 + rng.Intn(40)
		}
	}
	o := &Opts{N: n, Weights: ws, TimerBase: time.Duration(2+rng.Intn(3)) * time.Millisecond, Drop: rng.Intn(7), Dup: rng.Intn(6), MaxDelayUs: rng.Intn(1500), LogDelays: delays, RotateCommittee: rng.Intn(2) == 0, JudgeSeeds: true}
	net := NewNet(seed, o)
	desc := fmt.Sprintf("n=%d weights=%v timer=%v drop=%d%% dup=%d%% delay<=%dus logDelays=%d hostile=%v committee order by height=%v", n, ws, o.TimerBase, o.Drop, o.Dup, o.MaxDelayUs, len(delays), hostile, o.RotateCommittee)
	baseG, _ := libGoroutines()
	failer := rng.Intn(n + 2) // index >= n: nobody fails
	for i, nd := range net.Nodes {
		nd := nd
		if i == failer {
			nd.FailCommit = func(h uint64) bool { return hashPick(seed, nd.Id, h)%6 == 0 }
		}
	}
	for _, nd := range net.Nodes {
		// a block factory that is sometimes slow, gives up when its context is cancelled and then returns no block
		nd.BU.NilOnCancel = rng.Intn(2) == 0
		nd.BU.OnRequest = func(ctx context.Context, h uint64) {
			if net.rng.Intn(100) < 20 {
				select {
				case <-ctx.Done():
				case <-time.After(time.Duration(net.rng.Intn(4000)) * time.Microsecond):
				}
			}
		}
	}
	for _, nd := range net.Nodes {
		// a committee contract that is sometimes slow and reports an error once its context is cancelled
		nd.Mem.OnRequest = func(ctx context.Context, h uint64) error {
			if net.rng.Intn(100) < 15 {
				select {
				case <-ctx.Done():
				case <-time.After(time.Duration(net.rng.Intn(3000)) * time.Microsecond):
				}
			}
			if ctx.Err() != nil {
				return fmt.Errorf("committee contract: request aborted") // its own error, not context.Canceled
			}
			return nil
		}
	}
	for _, nd := range net.Nodes {
		nd.Start()
	}
	for _, nd := range net.Nodes {
		nd.Sync(nil, nil)
	}
	stop := make(chan struct{})
	var wg sync.WaitGroup
	// samplers: the observable (height, view) never decreases
	for _, nd := range net.Nodes {
		nd := nd
		wg.Add(1)
		go func() {
			defer wg.Done()
			lh, lv := uint64(0), uint64(0)
			cnt := 0
			for {
				select {
				case <-stop:
					net.add("C13 state samples", cnt)
					return
				default:
				}
				h, v := nd.HV()
				cnt++
				if h < lh || (h == lh && v < lv) {
					net.violate("C13", "state-went-backwards", "node %s: sampled (h,v) went from (%d,%d) to (%d,%d)", nd.Id, lh, lv, h, v)
				}
				lh, lv = h, v
				time.Sleep(40 * time.Microsecond)
			}
		}()
	}
	// API driver: node sync with older / equal / newer blocks, single and in bursts
	wg.Add(1)
	go func() {
		defer wg.Done()
		r := rand.New(rand.NewSource(seed + 1))
		for {
			select {
			case <-stop:
				return
			case <-time.After(time.Duration(1+r.Intn(8)) * time.Millisecond):
			}
			mc := net.MaxCanon()
			if mc == 0 {
				continue
			}
			nd := net.Nodes[r.Intn(n)]
			if r.Intn(3) == 0 {
				// block sync validating certificates on the consumer's goroutine while the node takes part in consensus: the
				// committed pair of a height is accepted by every node (strict), the same proof next to another height's block is not
				h := 1 + uint64(r.Intn(int(mc)))
				c := net.Canon(h)
				var prevB interfaces.Block
				var prevP []byte
				okPrev := h == 1
				if h > 1 {
					if pc := net.Canon(h - 1); pc != nil {
						prevB, prevP, okPrev = pc.Block, pc.Proof, true
					}
				}
				if c != nil && okPrev {
					net.count("C03 committed pairs validated through the API of a running node")
					if err := nd.ML.ValidateBlockConsensus(context.Background(), c.Block, c.Proof, prevB, prevP, false); err != nil {
						net.violate("C03", "running-peer-rejects-committed-pair", "node %s (running): strict ValidateBlockConsensus rejects the (block, proof) committed at height %d: %v", nd.Id, h, err)
					}
					other := &spi.Blk{H: h, Body: "not-the-committed-block"}
					if err := nd.ML.ValidateBlockConsensus(context.Background(), other, c.Proof, prevB, prevP, r.Intn(2) == 0); err == nil {
						net.violate("C02", "accepted-without-genuine-certificate:hash-does-not-commit-to-block", "node %s (running): ValidateBlockConsensus accepted the certificate of height %d next to another block", nd.Id, h)
					}
				}
				continue
			}
			burst := 1
			if r.Intn(3) == 0 {
				burst = 2 + r.Intn(5)
			}
			for b := 0; b < burst; b++ {
				h, _ := nd.HV()
				var target uint64
				switch r.Intn(4) {
				case 0: // older
					if h >= 2 {
						target = h - 2 + uint64(r.Intn(2))
					}
				case 1: // equal to the height being decided
					target = h
				default: // anything committed so far
					target = 1 + uint64(r.Intn(int(mc)))
				}
				if c := net.Canon(target); c != nil {
					nd.Sync(c.Block, c.Proof)
					net.count("UpdateState calls")
				}
			}
		}
	}()
	victim := net.Nodes[rng.Intn(n)]
	hostileStop := make(chan struct{})
	if hostile {
		wg.Add(1)
		go func() {
			defer wg.Done()
			r := rand.New(rand.NewSource(seed + 2))
			for {
				select {
				case <-stop:
					return
				case <-hostileStop:
					return
				case <-time.After(time.Duration(200+r.Intn(1500)) * time.Microsecond):
				}
				net.hostileInput(victim, r)
			}
		}()
	}
	// run until enough heights were decided or the wall budget is used (the budget is not a verdict)
	target := uint64(12 + rng.Intn(20))
	deadline := time.Now().Add(1500 * time.Millisecond)
	for net.MaxCanon() < target && time.Now().Before(deadline) {
		time.Sleep(2 * time.Millisecond)
	}
	net.add("heights decided", int(net.MaxCanon()))
	if hostile {
		close(hostileStop)
		// after the hostile input the victim still takes part and commits
		h0, _ := victim.HV()
		m0 := net.MaxCanon()
		okProgress := false
		wd := time.Now().Add(15 * time.Second)
		for time.Now().Before(wd) {
			if h, _ := victim.HV(); h >= h0+2 {
				okProgress = true
				break
			}
			time.Sleep(2 * time.Millisecond)
		}
		net.count("C12 victims judged for progress")
		if !okProgress {
			if net.MaxCanon() >= m0+4 {
				h1, _ := victim.HV()
				net.violate("C12", "victim-stopped-progressing-after-hostile-input", "node %s stayed at height %d (was %d) while the network decided heights %d..%d after the hostile input ended", victim.Id, h1, h0, m0, net.MaxCanon())
			} else {
				net.mu.Lock()
				net.stats["inconclusive: network made no progress in the clean phase"]++
				net.mu.Unlock()
			}
		}
	}
	close(stop)
	// shutdown at this (arbitrary) moment: nodes are mid-protocol, timers armed, SPI calls in flight
	atomic.StoreInt32(&net.frozen, 0)
	order := rng.Perm(n)
	for _, i := range order {
		nd := net.Nodes[i]
		nd.Cancel()
		c2, cancel2 := context.WithTimeout(context.Background(), 20*time.Second)
		nd.Waiter.WaitUntilShutdown(c2)
		if c2.Err() != nil {
			_, tops := libGoroutines()
			net.violate("C16", "wait-until-shutdown-did-not-return", "node %s: WaitUntilShutdown still blocked 20 s after cancellation; library goroutines: %v", nd.Id, tops)
		}
		cancel2()
		nd.downSeq = net.Log.Now()
		atomic.StoreInt32(&nd.down, 1)
		net.count("C16 shutdowns judged")
		// API calls with the cancelled context return promptly
		done := make(chan struct{})
		go func() {
			nd.Sync(nil, nil)
			nd.ML.HandleConsensusMessage(nd.ctx, nd.ping.CreatePrepareMessage(0, 1, []byte("x")).ToConsensusRawMessage())
			close(done)
		}()
		select {
		case <-done:
		case <-time.After(10 * time.Second):
			net.violate("C16", "api-call-with-cancelled-context-blocks", "node %s: UpdateState / HandleConsensusMessage with the cancelled context did not return", nd.Id)
		}
	}
	wg.Wait()
	net.inflight.Wait()
	// nothing fires afterwards; every library goroutine is gone (also covers a timer left armed)
	leftover := 0
	var tops []string
	for w := 0; w < 60; w++ {
		leftover, tops = libGoroutines()
		if leftover <= baseG {
			break
		}
		time.Sleep(10 * time.Millisecond)
	}
	time.Sleep(time.Duration(20+rng.Intn(60)) * time.Millisecond)
	if leftover > baseG {
		net.violate("C16", "goroutine-left-after-shutdown", "%d library goroutines still alive after every node shut down: %v", leftover-baseG, tops)
	}
	for _, nd := range net.Nodes {
		for _, e := range net.Log.Snapshot() {
			if e.Node == nd.Id && e.Seq > nd.downSeq {
				switch e.Kind {
				case spi.EvCommit, spi.EvNewRound, spi.EvSend, spi.EvElectionCB:
					net.violate("C16", "event-after-shutdown:"+e.Kind.String(), "node %s: %s (h=%d) after WaitUntilShutdown returned", nd.Id, e.Kind, e.H)
				}
			}
		}
	}
	net.offlineC13()
	return net.result("stress", idx, seed, desc)
}

// offlineC13 is the offline pass over each node's callback sequence; also a C01 sanity check.
func (net *Net) offlineC13() {
	evs := net.Log.Snapshot()
	decided := map[uint64]string{}
	for _, nd := range net.Nodes {
		lastCommit, lastRound := int64(-1), int64(-1)
		for i := range evs {
			e := &evs[i]
			if e.Node != nd.Id {
				continue
			}
			switch e.Kind {
			case spi.EvCommit:
				net.count("C13 commit callbacks judged")
				if int64(e.H) <= lastCommit {
					net.violate("C13", "commit-height-not-increasing", "node %s: commit callback for height %d after %d", nd.Id, e.H, lastCommit)
				}
				lastCommit = int64(e.H)
				if old, ok := decided[e.H]; ok && old != e.Hash {
					net.violate("C01", "fork", "height %d committed with two different blocks on the real runtime", e.H)
				}
				decided[e.H] = e.Hash
			case spi.EvNewRound:
				net.count("C13 round callbacks judged")
				if int64(e.H) <= lastRound {
					net.violate("C13", "round-height-not-increasing", "node %s: new-round callback for height %d after round %d", nd.Id, e.H, lastRound)
				}
				if int64(e.H) <= lastCommit {
					net.violate("C13", "round-not-above-committed-height", "node %s: new-round callback for height %d after the commit callback of %d", nd.Id, e.H, lastCommit)
				}
				if strings.Contains(e.Note, "state=") {
					net.violate("C13", "view-not-reset-at-new-height", "node %s: at the new-round callback of height %d the observable state was%s", nd.Id, e.H, e.Note[strings.Index(e.Note, " state="):])
				}
				lastRound = int64(e.H)
			}
		}
	}
}

// hostileInput sends one hostile message to the victim through the public API.
func (net *Net) hostileInput(victim *RNode, r *rand.Rand) {
	var raw *interfaces.ConsensusRawMessage
	h, v := victim.HV()
	f := victim.ping
	switch r.Intn(10) {
	case 0:
		raw = &interfaces.ConsensusRawMessage{Content: nil}
	case 1:
		raw = &interfaces.ConsensusRawMessage{Content: []byte{0, 0, 0, 0}}
	case 2:
		b := make([]byte, r.Intn(300))
		r.Read(b)
		raw = &interfaces.ConsensusRawMessage{Content: b}
	case 3, 4: // a genuine message of the run, truncated / bit-flipped / length-corrupted
		evs := net.Log.Snapshot()
		for try := 0; try < 20 && raw == nil && len(evs) > 0; try++ {
			e := evs[r.Intn(len(evs))]
			if e.Kind == spi.EvSend && e.Raw != nil && len(e.Raw.Content) > 8 {
				b := append([]byte{}, e.Raw.Content...)
				switch r.Intn(5) {
				case 0:
					b = b[:r.Intn(len(b)+1)]
				case 1:
					b[r.Intn(len(b))] ^= byte(1 << uint(r.Intn(8)))
				case 2:
					i := r.Intn(len(b) - 3)
					b[i], b[i+1], b[i+2], b[i+3] = 0xff, 0xff, 0xff, 0x7f
				default:
					// a length field (4-byte aligned) replaced by a value next to 2^32: 32-bit offset arithmetic wraps, the eager
					// checks of the outer layers still add up and the first reader of the nested field fails
					i := 4 * r.Intn((len(b)-3)/4)
					v := [][4]byte{{0xfc, 0xff, 0xff, 0xff}, {0xff, 0xff, 0xff, 0xff}, {0xf0, 0xff, 0xff, 0xff}, {0xf8, 0xff, 0xff, 0xff}, {0, 0, 0, 0x80}}[r.Intn(5)]
					b[i], b[i+1], b[i+2], b[i+3] = v[0], v[1], v[2], v[3]
				}
				raw = &interfaces.ConsensusRawMessage{Content: b, Block: e.Raw.Block}
			}
		}
	case 5: // extreme views / heights from an outsider with a valid key
		views := []uint64{1<<63 - 1, 1 << 63, ^uint64(0), 1 << 32}
		raw = f.CreateViewChangeMessage(primitives.BlockHeight(h), primitives.View(views[r.Intn(4)]), nil).ToConsensusRawMessage()
	case 6:
		raw = f.CreatePrepareMessage(primitives.BlockHeight(^uint64(0)-uint64(r.Intn(2))), primitives.View(v), []byte("h")).ToConsensusRawMessage()
	case 7: // empty ids, empty proof, missing block
		m := &ref.Msg{Env: ref.EnvPP, Type: ref.PP, Inst: uint64(spi.InstanceId), H: h, V: v, Hash: nil}
		raw = ref.Rebuild(m, ref.EnvPP)
	case 8: // nil message pointer
		victim.ML.HandleConsensusMessage(victim.ctx, nil)
		net.count("C12 hostile inputs")
		return
	case 9: // the validation API with garbage, or with a genuine proof whose length fields are corrupted
		b := make([]byte, r.Intn(120))
		r.Read(b)
		if c := net.Canon(net.MaxCanon()); c != nil && r.Intn(3) > 0 && len(c.Proof) > 8 {
			b = append([]byte{}, c.Proof...)
			for k := 0; k < 1+r.Intn(2); k++ {
				i := r.Intn(len(b) - 3)
				b[i], b[i+1], b[i+2], b[i+3] = byte(0xfc+r.Intn(4)), 0xff, 0xff, byte(0xff-r.Intn(2)*0x80)
			}
		}
		func() {
			defer func() {
				if p := recover(); p != nil {
					net.violate("C12", "validation-api-panics", "ValidateBlockConsensus / GetMemberIdsFromBlockProof panicked on %d random bytes: %v", len(b), p)
				}
			}()
			victim.ML.ValidateBlockConsensus(context.Background(), &spi.Blk{H: h}, b, nil, nil, r.Intn(2) == 0)
			leanhelix.GetMemberIdsFromBlockProof(b)
		}()
		net.count("C12 hostile inputs")
		return
	}
	if raw == nil {
		return
	}
	victim.ML.HandleConsensusMessage(victim.ctx, raw)
	net.count("C12 hostile inputs")
}
