package rt

import (
	"context"
	"fmt"
	"math/rand"
	"sync"
	"sync/atomic"
	"time"

	"github.com/orbs-network/lean-helix-go/services/interfaces"
	"github.com/orbs-network/lean-helix-go/spec/types/go/protocol"

	"verif/ref"
	"verif/sim"
	"verif/spi"
)

// RunCommitSync: one real node (main loop + worker) that follows a scripted committee. The script (which holds the
// other three members' keys) drives consensus commits through the public API — proposal of the view-0 leader, PREPAREs,
// COMMITs, or proposal + COMMITs only, so that the node commits on the others' COMMITs and sends its own on the way —
// while the commit callback parks, and node syncs arrive in that window: below the height being decided (block of the
// height-1 the node already builds on, older ones, the genesis nil), equal / newer ones, bursts, and the extreme height
// 2^64-1. Judged after the callback is released and 64 worker iterations were witnessed:
//
//	C14  the newest eligible sync took effect; syncs below the current height changed nothing — in particular the node
//	     that committed H while such a sync was pending went on to H+1 exactly as it does without the sync;
//	     a sync still takes effect after the 2^64-1 one; UpdateState returns (20 s watchdog);
//	C12  the same "can still be synced" after the extreme height;
//	C13  callback heights strictly increasing (offline pass over the callback log);
//	C16  shutdown while the transport is slow inside the send of the node's COMMIT: WaitUntilShutdown must not return
//	     while a library goroutine is still inside SendConsensusMessage, nothing is sent afterwards.
func RunCommitSync(seed int64, idx int) *Result {
	rng := rand.New(rand.NewSource(seed))
	delays := map[string]int{}
	for _, k := range []string{"CANCELED WORKER CONTEXT", "UPDATESTATE WORKERLOOP - Received", "Wrote to worker UpdateState channel", "onCommitCallback RETURNED", "Calling onNewConsensusRound", "PHASE COMMITTED"} {
		if rng.Intn(2) == 0 {
			delays[k] = 10 + rng.Intn(50)
		}
	}
	o := &Opts{N: 4, NoRouter: true, LogDelays: delays, JudgeSeeds: true}
	net := NewNet(seed, o)
	me := 1 + rng.Intn(3)
	nd := net.Nodes[me]
	var others []string
	for i, x := range net.Nodes {
		if i != me {
			others = append(others, x.Id)
		}
	}
	leader := net.Nodes[0].Id
	inst := uint64(spi.InstanceId)
	g := newGate()
	g.Open()
	g.lagUs = rng.Intn(600)
	// the commit callback parks until the script opens the gate; in half of the cases it also gives up when the context it
	// was handed is cancelled (a consumer that honours the context)
	ctxAware := rng.Intn(2) == 0
	var cbMu sync.Mutex
	var cbCtx context.Context
	nd.BlockCommit = func(ctx context.Context, h uint64) {
		cbMu.Lock()
		cbCtx = ctx
		cbMu.Unlock()
		if ctxAware {
			g.waitAt(ctx, h)
		} else {
			g.waitAt(context.Background(), h)
		}
	}
	lastCbCtx := func() context.Context { cbMu.Lock(); defer cbMu.Unlock(); return cbCtx }
	var parkCommittee int32
	rg := newGate() // the new-round callback parks on it: a slow consumer inside the handling of a sync or commit
	rg.Open()
	nd.BlockRound = func(ctx context.Context, h uint64) { rg.waitAt(context.Background(), h) }
	cg := newGate() // the committee contract parks on it (and on its context) while a round is being set up
	cg.Open()
	nd.Mem.OnRequest = func(ctx context.Context, h uint64) error {
		if atomic.LoadInt32(&parkCommittee) == 1 {
			net.count("committee requests after cancellation")
			<-ctx.Done()
		}
		cg.waitAt(ctx, h)
		return ctx.Err()
	}
	vg := newGate() // ValidateBlockProposal parks on it and on its context
	vg.Open()
	var vMu sync.Mutex
	var vCtx context.Context
	nd.BU.OnValidate = func(ctx context.Context, h uint64, b *spi.Blk) {
		vMu.Lock()
		vCtx = ctx
		vMu.Unlock()
		vg.waitAt(ctx, h)
	}
	lastVCtx := func() context.Context { vMu.Lock(); defer vMu.Unlock(); return vCtx }
	sendGate := newGate()
	sendGate.Open()
	net.HoldSend = func(from *RNode, m *interfaces.ConsensusRawMessage) {
		if cm := spi.SafeParse(m); cm != nil && cm.MessageType() == protocol.LEAN_HELIX_COMMIT {
			sendGate.wait(context.Background())
		}
	}
	desc := fmt.Sprintf("node %s follows a scripted committee; commit-callback honours its context=%v lag=%dus logDelays=%d", nd.Id, ctxAware, g.lagUs, len(delays))
	nd.Start()
	call := func(b *spi.Blk) bool {
		done := make(chan struct{})
		go func() {
			if b == nil {
				nd.Sync(nil, nil)
			} else {
				nd.Sync(b, nil)
			}
			close(done)
		}()
		select {
		case <-done:
			net.count("C14 UpdateState calls")
			return true
		case <-time.After(20 * time.Second):
			net.violate("C14", "update-state-blocks", "UpdateState(%v) did not return within 20 s while the loops run", b)
			return false
		}
	}
	finish := func() *Result {
		g.Open()
		rg.Open()
		vg.Open()
		sendGate.Open()
		nd.Cancel()
		c2, cancel2 := context.WithTimeout(context.Background(), 20*time.Second)
		nd.Waiter.WaitUntilShutdown(c2)
		if c2.Err() != nil {
			net.violate("C16", "wait-until-shutdown-did-not-return", "commit/sync scenario: WaitUntilShutdown blocked")
		}
		cancel2()
		net.offlineC13()
		return net.result("commitsync", idx, seed, desc)
	}
	net.SetSeed(nd.Id, 1, nil, false)
	call(nil)
	if nd.Witness(16) < 16 {
		net.count("inconclusive: worker iterations not witnessed")
		return finish()
	}
	// prevSig: random-seed signature of the proof the node entered its current height with (nil after a sync without proof)
	var prevSig []byte
	commitSeen := func(h uint64) *spi.Event {
		for _, e := range net.Log.Snapshot() {
			if e.Kind == spi.EvCommit && e.Node == nd.Id && e.H == h {
				x := e
				return &x
			}
		}
		return nil
	}
	// drive: the scripted members' messages for height h; returns once the commit callback of h was entered
	drive := func(h uint64, skipPrepares bool) bool {
		blk := &spi.Blk{H: h, Body: fmt.Sprintf("scripted-%d", h)}
		hash := spi.HashOf(blk)
		seedB := sim.SeedBytesOf(prevSig)
		mk := func(env ref.Env, typ ref.MT, id string) *interfaces.ConsensusRawMessage {
			hdr := &ref.Ref{Type: typ, Inst: inst, H: h, V: 0, Hash: hash}
			sg := ref.Sig{Id: id, Sig: net.Keys.SignCM(id, h, hdr.Bytes())}
			var share []byte
			var b interfaces.Block
			if env == ref.EnvC {
				share = net.Keys.Share(id, h, seedB)
			}
			if env == ref.EnvPP {
				b = blk
			}
			return ref.RawBlockRefMsg(env, hdr, sg, share, b)
		}
		nd.ML.HandleConsensusMessage(nd.ctx, mk(ref.EnvPP, ref.PP, leader))
		if !skipPrepares {
			for _, id := range others {
				if id != leader {
					nd.ML.HandleConsensusMessage(nd.ctx, mk(ref.EnvP, ref.P, id))
				}
			}
		}
		for _, id := range others {
			nd.ML.HandleConsensusMessage(nd.ctx, mk(ref.EnvC, ref.C, id))
		}
		for t0 := time.Now(); time.Since(t0) < 10*time.Second; {
			if commitSeen(h) != nil {
				return true
			}
			time.Sleep(200 * time.Microsecond)
		}
		return false
	}
	// traffic: the scripted members' view-0 messages that make the node commit height h when its seed derives from sig
	traffic := func(h uint64, sig []byte) []*interfaces.ConsensusRawMessage {
		blk := &spi.Blk{H: h, Body: fmt.Sprintf("scripted-%d", h)}
		hash := spi.HashOf(blk)
		seedB := sim.SeedBytesOf(sig)
		mk := func(env ref.Env, typ ref.MT, id string) *interfaces.ConsensusRawMessage {
			hdr := &ref.Ref{Type: typ, Inst: inst, H: h, V: 0, Hash: hash}
			sg := ref.Sig{Id: id, Sig: net.Keys.SignCM(id, h, hdr.Bytes())}
			var share []byte
			var b interfaces.Block
			if env == ref.EnvC {
				share = net.Keys.Share(id, h, seedB)
			}
			if env == ref.EnvPP {
				b = blk
			}
			return ref.RawBlockRefMsg(env, hdr, sg, share, b)
		}
		out := []*interfaces.ConsensusRawMessage{mk(ref.EnvPP, ref.PP, leader)}
		for _, id := range others {
			if id != leader {
				out = append(out, mk(ref.EnvP, ref.P, id))
			}
		}
		for _, id := range others {
			out = append(out, mk(ref.EnvC, ref.C, id))
		}
		return out
	}
	rounds := 5 + rng.Intn(6)
	lastSync := int64(-1) // highest block height handed to UpdateState so far (the main loop ignores anything not above it)
	extremeDone := false
	staleBefore := false // the last step was a batch of syncs that were all below the height being decided
	for r := 0; r < rounds; r++ {
		h0, _ := nd.HV()
		kind := rng.Intn(10)
		switch {
		case kind == 5 && h0 >= 2 && int64(h0-1) > lastSync:
			// the worker is inside the validation of the view-0 proposal; a sync with the block the node already builds on passes the
			// main loop (nothing that high was synced before) and waits in the worker's inbox; then the election timer of (h0, 0) fires
			vg.Close()
			{
				blk := &spi.Blk{H: h0, Body: fmt.Sprintf("scripted-%d", h0)}
				hdr := &ref.Ref{Type: ref.PP, Inst: inst, H: h0, V: 0, Hash: spi.HashOf(blk)}
				sg := ref.Sig{Id: leader, Sig: net.Keys.SignCM(leader, h0, hdr.Bytes())}
				nd.ML.HandleConsensusMessage(nd.ctx, ref.RawBlockRefMsg(ref.EnvPP, hdr, sg, nil, blk))
			}
			parked := false
			for i := 0; i < 50000 && !parked; i++ {
				parked = atomic.LoadInt32(&vg.parked) > 0
				time.Sleep(100 * time.Microsecond)
			}
			if !parked {
				vg.Open()
				net.count("inconclusive: validation of the view-0 proposal did not park")
				return finish()
			}
			vc := lastVCtx()
			if !call(&spi.Blk{H: h0 - 1, Body: "synced"}) {
				vg.Open()
				return finish()
			}
			lastSync = int64(h0 - 1)
			nd.Barrier()
			net.count("C15 stale syncs judged while an SPI call waits")
			if vc.Err() != nil {
				net.violate("C15", "older-event-cancelled-the-current-context", "ValidateBlockProposal of (%d,0) was waiting on its context when UpdateState(block %d) — the block the node already builds on — was handled: the context is cancelled", h0, h0-1)
			}
			nd.Manual.Fire(nd.ctx, h0, 0)
			nd.Barrier()
			net.count("C15 leave stimuli judged")
			net.count("C15 election triggers judged with a stale sync waiting in the worker's inbox")
			if vc.Err() == nil {
				net.violate("C15", "context-not-cancelled-when-told-to-leave", "ValidateBlockProposal of (%d,0) waits on its context; UpdateState(block %d), which is below the height being decided, sits in the worker's inbox; then the election trigger of (%d,0) was handed to the main loop: after a main-loop barrier the context is still live, the SPI call stalls the node", h0, h0-1, h0)
				vg.Open()
				return finish()
			}
			if nd.Witness(32) < 32 {
				vg.Open()
				net.count("inconclusive: worker iterations not witnessed")
				return finish()
			}
			vg.Open()
			h1, v1 := nd.HV()
			net.count("C19 current triggers judged")
			if h1 == h0 && v1 == 0 {
				for _, p := range []string{"C05", "C19"} {
					rule := map[string]string{"C05": "election-trigger-lost-in-hand-off", "C19": "current-trigger-not-acted-upon"}[p]
					net.violate(p, rule, "the election trigger of the registered pair (%d,0) was handed to the main loop while the worker was inside ValidateBlockProposal and a stale sync waited in its inbox; after 32 witnessed worker iterations the node is still in view 0", h0)
				}
			}
			if h1 != h0 {
				net.violate("C14", "stale-sync-changed-the-height", "UpdateState height %d (below the height %d being decided) moved the node to height %d (view %d)", h0-1, h0, h1, v1)
			}
			// back to view 0 of a fresh height for the rounds that follow
			if !call(&spi.Blk{H: h0, Body: "synced"}) {
				return finish()
			}
			lastSync = int64(h0)
			staleBefore = false
			net.SetSeed(nd.Id, h0+1, nil, false)
			if nd.Witness(16) < 16 {
				net.count("inconclusive: worker iterations not witnessed")
				return finish()
			}
			prevSig = nil
		case kind == 4 && rng.Intn(2) == 0:
			// the worker is busy (commit callback of h0 parked); the complete traffic of height h0+2 is handed to the node and waits in
			// the worker's queue; then a sync with block h0+1 passes the main loop. Whatever order the worker takes them in — messages
			// first (future cache) or sync first (live) — the node must commit h0+2: nothing queued for the height a sync starts may be lost.
			g.Close()
			if !drive(h0, rng.Intn(3) == 0) {
				if staleBefore {
					net.violate("C14", "stale-sync-changed-the-outcome", "after UpdateState calls that were all below the height %d being decided, the scripted traffic of that height no longer makes the node commit", h0)
				} else {
					net.count("inconclusive: scripted commit did not happen")
				}
				return finish()
			}
			staleBefore = false
			net.count("C14 scripted commits")
			{
				target := h0 + 1
				net.SetSeed(nd.Id, target+1, nil, false)
				for _, m := range traffic(target+1, nil) {
					nd.ML.HandleConsensusMessage(nd.ctx, m)
				}
				nd.Barrier() // the main loop has forwarded all of them to the worker's queue
				if !call(&spi.Blk{H: target, Body: "synced"}) {
					return finish()
				}
				lastSync = int64(target)
				nd.Barrier()
				g.Open()
				committed := false
				for t0 := time.Now(); time.Since(t0) < 10*time.Second && !committed; {
					committed = commitSeen(target+1) != nil
					time.Sleep(200 * time.Microsecond)
				}
				if nd.Witness(32) < 32 {
					net.count("inconclusive: worker iterations not witnessed")
					return finish()
				}
				h1, v1 := nd.HV()
				net.count("C14 batches judged")
				net.count("C17 batches queued for the height a sync starts judged")
				if !committed {
					for _, p := range []string{"C17", "C14"} {
						net.violate(p, "messages-queued-for-the-height-a-sync-starts-were-lost", "while the worker was inside the commit callback of height %d, the proposal, PREPAREs and COMMITs of height %d were handed to HandleConsensusMessage (they wait in the worker's queue), then UpdateState(block %d) returned nil; after the callback was released the node is at height %d view %d and never committed height %d — queued messages of the height the sync starts did not reach that height's term", h0, target+1, target, h1, v1, target+1)
					}
					return finish()
				}
				prevSig = nil
				if e := commitSeen(target + 1); e != nil && len(e.Proof) > 0 {
					prevSig = protocol.BlockProofReader(e.Proof).RandomSeedSignature()
				}
				net.SetSeed(nd.Id, target+2, prevSig, false)
				if h1 != target+2 {
					net.violate("C13", "commit-not-followed-by-the-next-round", "the node committed height %d (callback returned nil) and is at height %d after 32 witnessed worker iterations", target+1, h1)
					return finish()
				}
			}
		case kind < 6: // a consensus commit of the height being decided, syncs arriving while the commit callback runs
			park := rng.Intn(4) > 0
			if park {
				g.Close()
			}
			if !drive(h0, rng.Intn(3) == 0) {
				if staleBefore {
					net.violate("C14", "stale-sync-changed-the-outcome", "after UpdateState calls that were all below the height %d being decided, the proposal, PREPAREs and COMMITs of that height (which make the node commit when no such sync is made) no longer do: no commit callback within 10 s", h0)
				} else {
					net.count("inconclusive: scripted commit did not happen")
				}
				return finish()
			}
			staleBefore = false
			net.count("C14 scripted commits")
			var hs []uint64
			stale := true
			if park {
				switch rng.Intn(5) {
				case 0: // nothing: control
				case 1, 2: // the block the node already builds on (h0-1), and / or older ones, the genesis nil
					n := 1 + rng.Intn(3)
					for i := 0; i < n; i++ {
						if h0 >= 2 && (i == 0 || rng.Intn(2) == 0) {
							hs = append(hs, h0-1)
						} else {
							hs = append(hs, uint64(rng.Intn(int(h0))))
						}
					}
				case 3: // at or above the height being decided
					hs = []uint64{h0 + uint64(rng.Intn(3))}
					stale = false
				case 4: // burst, mixed
					n := 2 + rng.Intn(4)
					for i := 0; i < n; i++ {
						if rng.Intn(2) == 0 && h0 >= 2 {
							hs = append(hs, h0-1-uint64(rng.Intn(int(minU(h0-1, 2)))))
						} else {
							hs = append(hs, h0+uint64(rng.Intn(4)))
							stale = false
						}
					}
				}
			}
			want := h0 + 1 // the commit callback returns nil: the node goes on to the next height
			for _, h := range hs {
				if h >= h0 && h+1 > want {
					want = h + 1
				}
				var ok bool
				if h == 0 {
					ok = call(nil)
				} else {
					ok = call(&spi.Blk{H: h, Body: "synced"})
				}
				if !ok {
					return finish()
				}
				if int64(h) > lastSync {
					lastSync = int64(h)
				}
			}
			if len(hs) > 0 {
				nd.Barrier() // the main loop is done with every one of them: what it forwarded sits in the worker's slot
				net.count("C14 syncs pending while the commit callback runs")
				// C15: the context handed to the commit callback is cancelled by a sync to a higher height, and by nothing older
				if cc := lastCbCtx(); cc != nil {
					net.count("C15 commit-callback contexts judged")
					if stale && cc.Err() != nil {
						net.violate("C15", "older-event-cancelled-the-commit-callback-context", "the commit callback of height %d was running when UpdateState heights %v (all below that height) were handled: its context is cancelled", h0, hs)
					}
					if !stale && cc.Err() == nil {
						net.violate("C15", "context-not-cancelled-when-told-to-leave", "the commit callback of height %d was running when UpdateState heights %v (one at or above that height) were handled; after a main-loop barrier its context is still live", h0, hs)
					}
				}
			}
			g.Open()
			if nd.Witness(64) < 64 {
				net.count("inconclusive: worker iterations not witnessed")
				return finish()
			}
			h1, v1 := nd.HV()
			net.count("C14 batches judged")
			if len(hs) > 0 && stale {
				net.count("C14 stale batches judged")
				if h1 != h0+1 {
					net.violate("C14", "stale-sync-changed-the-outcome", "the node committed height %d (callback returned nil) while UpdateState heights %v — all below the height being decided — were pending; without them it goes on to height %d, with them it is at height %d (view %d) after 64 witnessed worker iterations", h0, hs, h0+1, h1, v1)
				}
			} else if h1 < want {
				if len(hs) == 0 {
					net.violate("C13", "commit-not-followed-by-the-next-round", "the node committed height %d (callback returned nil) and is still at height %d after 64 witnessed worker iterations", h0, h1)
				} else {
					net.violate("C14", "newest-sync-did-not-take-effect", "UpdateState heights %v returned nil while the node was committing height %d; after 64 witnessed worker iterations it is at height %d (view %d), expected at least %d", hs, h0, h1, v1, want)
				}
			}
			staleBefore = len(hs) > 0 && stale
			// the proof the node now builds on
			prevSig = nil
			if h1 == h0+1 {
				if e := commitSeen(h0); e != nil && len(e.Proof) > 0 {
					prevSig = protocol.BlockProofReader(e.Proof).RandomSeedSignature()
				}
				// (a sync for exactly h0 that raced with the commit may have started the round instead: not determinable then)
				raced := false
				for _, h := range hs {
					if h == h0 {
						raced = true
					}
				}
				net.SetSeed(nd.Id, h1, prevSig, raced)
			} else {
				net.SetSeed(nd.Id, h1, nil, false)
			}
		case kind == 6: // a sync overtakes the round that is being set up after a commit; messages of that round are already queued
			cg.Close()
			if !drive(h0, false) {
				cg.Open()
				if staleBefore {
					net.violate("C14", "stale-sync-changed-the-outcome", "after UpdateState calls that were all below the height %d being decided, the scripted traffic of that height no longer makes the node commit", h0)
				} else {
					net.count("inconclusive: scripted commit did not happen")
				}
				return finish()
			}
			staleBefore = false
			net.count("C14 scripted commits")
			parked := false
			for i := 0; i < 50000 && !parked; i++ {
				parked = atomic.LoadInt32(&cg.parked) > 0
				time.Sleep(100 * time.Microsecond)
			}
			if !parked {
				cg.Open()
				net.count("inconclusive: committee request of the next round did not park")
				return finish()
			}
			// the node is at height h0+1 (state already advanced), its term is being constructed. Queue that height's COMMITs.
			var sigH []byte
			if e := commitSeen(h0); e != nil && len(e.Proof) > 0 {
				sigH = protocol.BlockProofReader(e.Proof).RandomSeedSignature()
			}
			net.SetSeed(nd.Id, h0+1, sigH, false)
			{
				h := h0 + 1
				blk := &spi.Blk{H: h, Body: fmt.Sprintf("scripted-%d", h)}
				hdr := &ref.Ref{Type: ref.C, Inst: inst, H: h, V: 0, Hash: spi.HashOf(blk)}
				for _, id := range others {
					sg := ref.Sig{Id: id, Sig: net.Keys.SignCM(id, h, hdr.Bytes())}
					nd.ML.HandleConsensusMessage(nd.ctx, ref.RawBlockRefMsg(ref.EnvC, hdr, sg, net.Keys.Share(id, h, sim.SeedBytesOf(sigH)), nil))
				}
			}
			target := h0 + 1 + uint64(rng.Intn(3))
			if !call(&spi.Blk{H: target, Body: "synced"}) {
				cg.Open()
				return finish()
			}
			lastSync = int64(target)
			net.SetSeed(nd.Id, target+1, nil, false)
			nd.Barrier()
			cg.Open()
			if nd.Witness(64) < 64 {
				net.count("inconclusive: worker iterations not witnessed")
				return finish()
			}
			h1, v1 := nd.HV()
			net.count("C14 batches judged")
			net.count("C17 rounds overtaken by a sync while being set up")
			if h1 < target+1 {
				net.violate("C14", "newest-sync-did-not-take-effect", "UpdateState height %d returned nil while the round of height %d was being set up; after 64 witnessed worker iterations the node is at height %d (view %d)", target, h0+1, h1, v1)
			}
			prevSig = nil
		case kind < 8 && !extremeDone: // the extreme height, then a sync that must still take effect
			extremeDone = true
			staleBefore = false
			if !call(&spi.Blk{H: ^uint64(0), Body: "height 2^64-1"}) {
				return finish()
			}
			nd.Barrier()
			net.count("C12 hostile inputs")
			target := h0 + 1 + uint64(rng.Intn(3))
			if int64(target) <= lastSync {
				target = uint64(lastSync) + 1
			}
			if !call(&spi.Blk{H: target, Body: "synced"}) {
				return finish()
			}
			lastSync = int64(target)
			if nd.Witness(64) < 64 {
				net.count("inconclusive: worker iterations not witnessed")
				return finish()
			}
			h1, _ := nd.HV()
			net.count("C14 batches judged")
			net.count("C12 syncs judged after an extreme-height sync")
			if h1 < target+1 {
				for _, p := range []string{"C14", "C12"} {
					net.violate(p, "node-cannot-be-synced-after-a-sync-with-height-2^64-1", "UpdateState with a block of height 2^64-1 (ignored, as it must be) was followed by UpdateState(height %d), which returned nil while the node was deciding height %d; after 64 witnessed worker iterations the node is at height %d, expected %d: later syncs are dropped", target, h0, h1, target+1)
				}
			}
			prevSig = nil
			net.SetSeed(nd.Id, h1, nil, false)
		case kind == 8 && h0 >= 2 && int64(h0-1) > lastSync: // idle node, sync with the block it already builds on (and maybe older ones)
			hs := []uint64{h0 - 1}
			if rng.Intn(2) == 0 {
				hs = append(hs, uint64(rng.Intn(int(h0))))
			}
			eh, ev, live0 := nd.Manual.Current()
			for _, h := range hs {
				var ok bool
				if h == 0 {
					ok = call(nil)
				} else {
					ok = call(&spi.Blk{H: h, Body: "synced"})
				}
				if !ok {
					return finish()
				}
				if int64(h) > lastSync {
					lastSync = int64(h)
				}
			}
			if nd.Witness(64) < 64 {
				net.count("inconclusive: worker iterations not witnessed")
				return finish()
			}
			h1, v1 := nd.HV()
			net.count("C14 batches judged")
			net.count("C14 stale batches judged")
			net.count("C14 stale syncs to an idle node judged")
			staleBefore = true
			if h1 != h0 {
				net.violate("C14", "stale-sync-changed-the-height", "UpdateState heights %v (all below the height %d being decided) moved the node to height %d (view %d)", hs, h0, h1, v1)
			}
			if eh2, ev2, live := nd.Manual.Current(); live0 && (!live || eh2 != eh || ev2 != ev) {
				net.violate("C14", "stale-sync-changed-the-outcome", "UpdateState heights %v (all below the height %d being decided): the election timer registered for (%d,%d) before them is now (%d,%d) registered=%v — the round of the current height was torn down", hs, h0, eh, ev, eh2, ev2, live)
			}
			continue
		case kind == 9 && rng.Intn(2) == 0: // the election timer of the round a sync starts fires while the worker is still handling that sync
			target := h0 + uint64(rng.Intn(3))
			if int64(target) <= lastSync {
				continue
			}
			rg.Close()
			if !call(&spi.Blk{H: target, Body: "synced"}) {
				rg.Open()
				return finish()
			}
			lastSync = int64(target)
			staleBefore = false
			net.SetSeed(nd.Id, target+1, nil, false)
			parked := false
			for i := 0; i < 50000 && !parked; i++ {
				parked = atomic.LoadInt32(&rg.parked) > 0
				time.Sleep(100 * time.Microsecond)
			}
			if !parked {
				rg.Open()
				net.count("inconclusive: new-round callback did not park")
				return finish()
			}
			eh, ev, live := nd.Manual.Current()
			if !live || eh != target+1 || ev != 0 {
				rg.Open()
				net.count("inconclusive: the new round's election timer was not registered yet")
				return finish()
			}
			nd.Manual.Fire(nd.ctx, target+1, 0) // what the expired timer of (target+1, 0) sends
			nd.Barrier()                        // the main loop has cancelled that view's context and queued the trigger for the worker
			rg.Open()
			if nd.Witness(32) < 32 {
				net.count("inconclusive: worker iterations not witnessed")
				return finish()
			}
			h1, v1 := nd.HV()
			net.count("C14 batches judged")
			net.count("C19 current triggers judged")
			net.count("C05 triggers fired during the handling of a sync judged")
			if h1 == target+1 && v1 == 0 {
				for _, p := range []string{"C05", "C19"} {
					rule := map[string]string{"C05": "election-trigger-lost-in-hand-off", "C19": "current-trigger-not-acted-upon"}[p]
					net.violate(p, rule, "the election trigger of the registered pair (%d,0) was handed to the main loop while the worker was still inside the handling of the sync that started that round (slow new-round callback); after 32 witnessed worker iterations the node is still in view 0: the trigger was never acted upon and the timer is one-shot", target+1)
				}
			}
			if h1 < target+1 {
				net.violate("C14", "newest-sync-did-not-take-effect", "UpdateState height %d returned nil while the node was deciding height %d; after 32 witnessed worker iterations it is at height %d (view %d)", target, h0, h1, v1)
			}
			// back to view 0 of a fresh height for the rounds that follow (the scripted traffic is view-0 traffic)
			if !call(&spi.Blk{H: h1, Body: "synced"}) {
				return finish()
			}
			lastSync = int64(h1)
			net.SetSeed(nd.Id, h1+1, nil, false)
			if nd.Witness(16) < 16 {
				net.count("inconclusive: worker iterations not witnessed")
				return finish()
			}
			prevSig = nil
		default: // a plain newer sync
			target := h0 + uint64(rng.Intn(3))
			if int64(target) <= lastSync {
				continue
			}
			if !call(&spi.Blk{H: target, Body: "synced"}) {
				return finish()
			}
			lastSync = int64(target)
			staleBefore = false
			if nd.Witness(64) < 64 {
				net.count("inconclusive: worker iterations not witnessed")
				return finish()
			}
			h1, v1 := nd.HV()
			net.count("C14 batches judged")
			if h1 < target+1 {
				net.violate("C14", "newest-sync-did-not-take-effect", "UpdateState height %d returned nil while the node was deciding height %d; after 64 witnessed worker iterations it is at height %d (view %d)", target, h0, h1, v1)
			}
			prevSig = nil
			net.SetSeed(nd.Id, h1, nil, false)
		}
	}
	// shutdown while the commit callback waits on its context
	if ctxAware && rng.Intn(2) == 0 {
		h0, _ := nd.HV()
		g.Close()
		if !drive(h0, rng.Intn(3) == 0) {
			net.count("inconclusive: scripted commit did not happen")
			return finish()
		}
		parked := false
		for i := 0; i < 50000 && !parked; i++ {
			parked = atomic.LoadInt32(&g.parked) > 0
			time.Sleep(100 * time.Microsecond)
		}
		if !parked {
			net.count("inconclusive: commit callback did not park")
			return finish()
		}
		net.count("C16 shutdowns judged")
		net.count("C16 shutdowns while the commit callback waits on its context")
		// from now on the committee contract waits on the context it is handed: whatever the library still starts after the
		// cancellation must run under a context that is (or gets) cancelled
		atomic.StoreInt32(&parkCommittee, 1)
		nd.Cancel()
		c2, cancel2 := context.WithTimeout(context.Background(), 20*time.Second)
		nd.Waiter.WaitUntilShutdown(c2)
		if c2.Err() != nil {
			_, tops := libGoroutines()
			net.violate("C16", "wait-until-shutdown-did-not-return", "the Run context was cancelled while the commit callback of height %d waits on the context it was handed: WaitUntilShutdown still blocked after 20 s; library goroutines: %v", h0, tops)
			net.violate("C15", "blocking-spi-call-stalls-shutdown", "the commit callback of height %d waits on the context it was handed; shutdown did not cancel that context (WaitUntilShutdown blocked for 20 s)", h0)
		}
		cancel2()
		g.Open()
		net.offlineC13()
		return net.result("commitsync", idx, seed, desc)
	}
	// shutdown while the transport is slow inside the send of the node's own COMMIT (sent on the way to committing on the
	// others' COMMITs)
	if rng.Intn(2) == 0 {
		h0, _ := nd.HV()
		sendGate.Close()
		g.Open()
		blk := &spi.Blk{H: h0, Body: fmt.Sprintf("scripted-%d", h0)}
		hash := spi.HashOf(blk)
		seedB := sim.SeedBytesOf(prevSig)
		mk := func(env ref.Env, typ ref.MT, id string) *interfaces.ConsensusRawMessage {
			hdr := &ref.Ref{Type: typ, Inst: inst, H: h0, V: 0, Hash: hash}
			sg := ref.Sig{Id: id, Sig: net.Keys.SignCM(id, h0, hdr.Bytes())}
			var share []byte
			var b interfaces.Block
			if env == ref.EnvC {
				share = net.Keys.Share(id, h0, seedB)
			}
			if env == ref.EnvPP {
				b = blk
			}
			return ref.RawBlockRefMsg(env, hdr, sg, share, b)
		}
		nd.ML.HandleConsensusMessage(nd.ctx, mk(ref.EnvPP, ref.PP, leader))
		withPrepares := rng.Intn(2) == 0
		if withPrepares {
			for _, id := range others {
				if id != leader {
					nd.ML.HandleConsensusMessage(nd.ctx, mk(ref.EnvP, ref.P, id))
				}
			}
		}
		for _, id := range others {
			nd.ML.HandleConsensusMessage(nd.ctx, mk(ref.EnvC, ref.C, id))
		}
		parked := false
		for i := 0; i < 50000 && !parked; i++ {
			parked = atomic.LoadInt32(&sendGate.parked) > 0
			time.Sleep(100 * time.Microsecond)
		}
		if !parked {
			net.count("inconclusive: no COMMIT send was held")
			return finish()
		}
		net.count("C16 shutdowns judged")
		net.count("C16 shutdowns with a held COMMIT send")
		nd.Cancel()
		returned := make(chan struct{})
		go func() {
			c2, cancel2 := context.WithTimeout(context.Background(), 20*time.Second)
			nd.Waiter.WaitUntilShutdown(c2)
			if c2.Err() != nil {
				net.violate("C16", "wait-until-shutdown-did-not-return", "WaitUntilShutdown still blocked 20 s after cancellation (the held send had been released after 300 ms)")
			}
			cancel2()
			close(returned)
		}()
		select {
		case <-returned:
			// the loops are reported finished: no library goroutine may still be inside the transport
			if atomic.LoadInt32(&sendGate.parked) > 0 {
				_, tops := libGoroutines()
				net.violate("C16", "goroutine-left-after-shutdown", "WaitUntilShutdown returned while a goroutine started by the library is still inside Communication.SendConsensusMessage (COMMIT of height %d, prepares delivered=%v); library goroutines: %v", h0, withPrepares, tops)
			}
		case <-time.After(300 * time.Millisecond):
		}
		nd.downSeq = net.Log.Now()
		select {
		case <-returned:
			atomic.StoreInt32(&nd.down, 1)
		default:
		}
		sendGate.Open()
		<-returned
		time.Sleep(20 * time.Millisecond)
		for _, e := range net.Log.Snapshot() {
			if e.Node == nd.Id && e.Seq > nd.downSeq && atomic.LoadInt32(&nd.down) == 1 && (e.Kind == spi.EvSend || e.Kind == spi.EvCommit || e.Kind == spi.EvNewRound) {
				net.violate("C16", "event-after-shutdown:"+e.Kind.String(), "node %s: %s (h=%d) after WaitUntilShutdown returned", nd.Id, e.Kind, e.H)
			}
		}
		net.offlineC13()
		return net.result("commitsync", idx, seed, desc)
	}
	return finish()
}
