package rt

import (
	"context"
	"fmt"
	"math/rand"
	"sync"
	"sync/atomic"
	"time"

	"verif/spi"
)

// gate: SPI fakes park on it while it is closed-for-business; opening releases every parked call.
type gate struct {
	mu     sync.Mutex
	ch     chan struct{}
	open   bool
	parked int32
	lagUs  int            // how long a released / cancelled call dawdles before returning
	at     map[uint64]int // height -> calls currently parked for that height
}

func newGate() *gate { return &gate{ch: make(chan struct{}), at: map[uint64]int{}} }

func (g *gate) wait(ctx context.Context) { g.waitAt(ctx, 0) }

// parkedAtOrBelow: calls still parked for a height <= h.
func (g *gate) parkedAtOrBelow(h uint64) int {
	g.mu.Lock()
	defer g.mu.Unlock()
	n := 0
	for hh, c := range g.at {
		if hh <= h {
			n += c
		}
	}
	return n
}

func (g *gate) waitAt(ctx context.Context, h uint64) {
	g.mu.Lock()
	if g.open {
		g.mu.Unlock()
		return
	}
	ch := g.ch
	g.at[h]++
	g.mu.Unlock()
	atomic.AddInt32(&g.parked, 1)
	select {
	case <-ctx.Done():
	case <-ch:
	}
	atomic.AddInt32(&g.parked, -1)
	g.mu.Lock()
	g.at[h]--
	g.mu.Unlock()
	if g.lagUs > 0 {
		time.Sleep(time.Duration(g.lagUs) * time.Microsecond)
	}
}
func (g *gate) Open() {
	g.mu.Lock()
	if !g.open {
		g.open = true
		close(g.ch)
	}
	g.mu.Unlock()
}
func (g *gate) Close() {
	g.mu.Lock()
	if g.open {
		g.open = false
		g.ch = make(chan struct{})
	}
	g.mu.Unlock()
}

// RunSync decides C14 on one real node (main loop + worker): sequences of UpdateState calls
// (increasing, repeated, decreasing, bursts) while SPI calls park until their context is cancelled.
// Verdicts are logical: after the stimulus, 64 witnessed worker iterations with nothing else to do.
func RunSync(seed int64, idx int) *Result {
	rng := rand.New(rand.NewSource(seed))
	delays := map[string]int{}
	for _, k := range []string{"CANCELED WORKER CONTEXT", "UPDATESTATE WORKERLOOP - Received", "Wrote to worker UpdateState channel", "UPDATESTATE MAINLOOP - CANCELED"} {
		if rng.Intn(2) == 0 {
			delays[k] = 10 + rng.Intn(50)
		}
	}
	o := &Opts{N: 4, NoRouter: true, LogDelays: delays}
	net := NewNet(seed, o)
	nd := net.Nodes[0] // position 0 of the committee: leader of view 0 at every height
	g := newGate()
	g.lagUs = rng.Intn(900)
	parkKinds := rng.Intn(8) // bit 0: RequestNewBlockProposal, bit 1: RequestOrderedCommittee, bit 2: commit callback (unused here)
	nd.BU.OnRequest = func(ctx context.Context, h uint64) {
		if parkKinds&1 != 0 {
			g.waitAt(ctx, h)
		}
	}
	ownErr := rng.Intn(2) == 0
	nd.Mem.OnRequest = func(ctx context.Context, h uint64) error {
		if parkKinds&2 != 0 {
			g.waitAt(ctx, h)
		}
		if ctx.Err() != nil && ownErr {
			return fmt.Errorf("committee contract: call aborted") // a contract that reports the cancellation with an error of its own
		}
		return ctx.Err() // ... or by handing the context's error back
	}
	if parkKinds&4 != 0 {
		nd.BlockCommit = func(ctx context.Context, h uint64) { g.waitAt(ctx, h) }
	}
	desc := fmt.Sprintf("single node n00 (leader of view 0), parkKinds=%03b lag=%dus logDelays=%d", parkKinds, g.lagUs, len(delays))
	defer func() { net.count("C15 sync cases with parked SPI calls") }()
	nd.Start()
	call := func(b *spi.Blk) bool {
		done := make(chan struct{})
		go func() {
			if b == nil {
				nd.Sync(nil, nil)
			} else {
				nd.Sync(b, nil)
			}
			close(done)
		}()
		select {
		case <-done:
			return true
		case <-time.After(20 * time.Second):
			net.violate("C14", "update-state-blocks", "UpdateState(h=%v) did not return within 20 s while the loops run", b)
			return false
		}
	}
	quiesce := func() bool {
		g.Open()
		w := nd.Witness(64)
		if w < 64 {
			net.mu.Lock()
			net.stats["inconclusive: worker iterations not witnessed"]++
			net.mu.Unlock()
			return false
		}
		return true
	}
	call(nil) // genesis
	if !quiesce() {
		return net.result("sync", idx, seed, desc)
	}
	cur := uint64(1)
	rounds := rng.Intn(6) + 4
	for r := 0; r < rounds; r++ {
		g.Close()
		// let the worker park in an SPI call of the current height if it is going to
		time.Sleep(time.Duration(rng.Intn(400)) * time.Microsecond)
		h0, _ := nd.HV()
		mark := net.Log.Now()
		kind := rng.Intn(10)
		var hs []uint64
		switch {
		case kind < 2: // stale: strictly below the height being decided
			if h0 >= 2 {
				hs = []uint64{uint64(rng.Intn(int(h0 - 1)))}
				if hs[0] == 0 && h0 < 3 {
					hs = nil
				}
			}
		case kind < 4: // exactly the height being decided, or above
			hs = []uint64{h0 + uint64(rng.Intn(3))}
		default: // burst of 2..6 back-to-back calls: increasing, repeated, decreasing
			n := 2 + rng.Intn(5)
			base := h0 + uint64(rng.Intn(3))
			for i := 0; i < n; i++ {
				switch rng.Intn(4) {
				case 0:
					hs = append(hs, base)
				case 1:
					if base > 1 {
						hs = append(hs, base-1-uint64(rng.Intn(int(minU(base-1, 3)))))
					} else {
						hs = append(hs, base)
					}
				default:
					base += 1 + uint64(rng.Intn(4))
					hs = append(hs, base)
				}
			}
		}
		if len(hs) == 0 {
			continue
		}
		// what the property promises for this batch
		want := h0
		eligible := false
		for _, h := range hs {
			hNow, _ := nd.HV()
			if h >= hNow || h >= h0 { // at least the height being decided at the call
				if h+1 > want {
					want = h + 1
				}
				eligible = true
			}
			if h == 0 {
				continue
			}
			if !call(&spi.Blk{H: h, Body: "synced"}) {
				return net.result("sync", idx, seed, desc)
			}
			net.count("C14 UpdateState calls")
		}
		// "even while the worker is inside a long SPI call": the sync itself (not the harness) must release every call that
		// waits on the context of a height at or below the synced block
		if eligible {
			nd.Barrier()
			released := false
			for i := 0; i < 20000; i++ {
				if g.parkedAtOrBelow(want-1) == 0 {
					released = true
					break
				}
				time.Sleep(100 * time.Microsecond)
			}
			net.count("C14 releases judged")
			if !released {
				net.violate("C15", "context-not-cancelled-when-told-to-leave", "UpdateState heights %v returned nil (node was deciding height %d) but an SPI call waiting on the context of a height <= %d is still blocked 2 s after the main loop handled the sync", hs, h0, want-1)
				net.violate("C14", "sync-did-not-release-the-blocked-spi-call", "UpdateState heights %v returned nil (node was deciding height %d) but an SPI call waiting on the context of a height <= %d is still blocked 2 s after the main loop handled the sync", hs, h0, want-1)
			}
		}
		if !quiesce() {
			// every SPI call has been released (gate open) and the worker still takes nothing from its queue: if that is still so
			// 10 s later and the sync has not taken effect, the worker is stuck where it was told to leave
			time.Sleep(10 * time.Second)
			if hh, _ := nd.HV(); eligible && hh < want && nd.Witness(1) == 0 {
				_, tops := libGoroutines()
				net.violate("C14", "newest-sync-did-not-take-effect", "UpdateState heights %v returned nil while the node was deciding height %d; every SPI call was released, yet 15 s later the worker takes nothing from its queue and the node is at height %d (expected at least %d); library goroutines: %v", hs, h0, hh, want, tops)
				net.violate("C15", "blocking-spi-call-stalls-the-node", "SPI calls that wait on their context were released when the node was told to leave height %d (committee contract reports cancellation with its own error=%v), yet the worker never came back: it is still at height %d 15 s later; library goroutines: %v", h0, ownErr, hh, tops)
			}
			break
		}
		h1, v1 := nd.HV()
		net.count("C14 batches judged")
		if eligible {
			if h1 < want {
				net.violate("C14", "newest-sync-did-not-take-effect", "UpdateState heights %v returned nil while the node was deciding height %d; after 64 witnessed worker iterations it is at height %d (view %d), expected at least %d", hs, h0, h1, v1, want)
				if parkKinds&3 != 0 {
					net.violate("C15", "blocking-spi-call-stalls-the-node", "SPI calls wait on their context (parkKinds=%03b, committee contract reports cancellation with its own error=%v); UpdateState heights %v told the node to leave height %d, yet after 64 witnessed worker iterations it is still at height %d", parkKinds, ownErr, hs, h0, h1)
				}
			}
		} else {
			// stale syncs change nothing
			net.count("C14 stale batches judged")
			if h1 != h0 {
				net.violate("C14", "stale-sync-changed-the-height", "UpdateState heights %v (all below the height %d being decided) moved the node to height %d", hs, h0, h1)
			}
			for _, e := range net.Log.Snapshot() {
				if e.Seq > mark && e.Kind == spi.EvNewRound {
					net.violate("C14", "stale-sync-started-a-round", "UpdateState heights %v (below height %d) led to a new-round callback for height %d", hs, h0, e.H)
				}
			}
		}
		cur = h1
	}
	_ = cur
	// no PREPREPARE of view 0 for a round entered by sync above height 1
	evs := net.Log.Snapshot()
	bySync := map[uint64]bool{}
	for _, e := range evs { // (the new-round callback of a height comes after the term was constructed, i.e. after a first-leader proposal)
		if e.Kind == spi.EvNewRound && !e.Ok {
			bySync[e.H] = true
			net.count("C14 rounds entered by sync")
		}
	}
	for _, e := range evs {
		if e.Kind == spi.EvSend && e.Raw != nil {
			if m := spi.SafeParse(e.Raw); m != nil && m.MessageType() == 1 && m.View() == 0 && uint64(m.BlockHeight()) > 1 && bySync[uint64(m.BlockHeight())] {
				net.violate("C14", "first-leader-after-sync", "the node sent PREPREPARE(view 0) for height %d, a round it entered by sync", uint64(m.BlockHeight()))
			}
		}
		if e.Kind == spi.EvRequestBlock && e.H > 1 && bySync[e.H] {
			// a proposal requested for view 0 of a synced round (views above 0 are legitimate, none occur here: no elections)
			net.violate("C14", "first-leader-after-sync", "the node requested a new block proposal for height %d, a round it entered by sync", e.H)
		}
	}
	g.Open()
	nd.Cancel()
	c2, cancel2 := context.WithTimeout(context.Background(), 20*time.Second)
	nd.Waiter.WaitUntilShutdown(c2)
	if c2.Err() != nil {
		net.violate("C16", "wait-until-shutdown-did-not-return", "sync scenario: WaitUntilShutdown blocked")
	}
	cancel2()
	return net.result("sync", idx, seed, desc)
}

func minU(a, b uint64) uint64 {
	if a < b {
		return a
	}
	return b
}
