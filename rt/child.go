package rt

import (
	"verif/unit"

	"crypto/sha256"
	"encoding/binary"
	"encoding/json"
	"fmt"
	"os"
)

func caseSeed(seed int64, scenario string, idx int) int64 {
	h := sha256.Sum256([]byte(fmt.Sprintf("%d|%s|%d", seed, scenario, idx)))
	return int64(binary.LittleEndian.Uint64(h[:8]) >> 1)
}

// Scenarios by name.
var Scenarios = map[string]func(seed int64, idx int) *Result{
	"stress":     func(s int64, i int) *Result { return RunStress(s, i, false) },
	"hostile":    func(s int64, i int) *Result { return RunStress(s, i, true) },
	"sync":       RunSync,
	"flood":      RunFlood,
	"timer":      RunTimer,
	"ctx":        RunCtx,
	"validate":   RunValidate,
	"commitsync": RunCommitSync,
	"syncstorm":  RunSyncStorm,
}

// ChildMain runs cases [from,to) of a scenario and prints one "RT|{json}" line per case.
func ChildMain(scenario string, seed int64, from, to int) int {
	f, ok := Scenarios[scenario]
	if !ok {
		fmt.Println("unknown scenario", scenario)
		return 2
	}
	for i := from; i < to; i++ {
		fmt.Printf("RTSTART|%s|%d\n", scenario, i)
		r := f(caseSeed(seed, scenario, i), i)
		r.Case = i
		b, _ := json.Marshal(r)
		fmt.Printf("RT|%s\n", b)
		os.Stdout.Sync()
	}
	fmt.Println("RTDONE")
	return 0
}

// RunTimer: the timer component scripts of C19 under the race detector.
func RunTimer(seed int64, idx int) *Result {
	viol, recv, judged, left := unit.TimerScripts(seed, 40)
	r := &Result{Scenario: "timer", Case: idx, Seed: seed, Stats: map[string]int{"C19 timer scripts": 40, "C19 triggers received": recv, "C19 triggers judged": judged, "C19 timer goroutines left": left}, Desc: "40 Register/Stop/read scripts on the real TimerBasedElectionTrigger (2 ms base)"}
	for _, v := range viol {
		r.Viol = append(r.Viol, Violation{"C19", v[0], v[1]})
	}
	return r
}

// RunValidate: overlapping ValidateBlockConsensus calls on one node (C02) under the race detector.
func RunValidate(seed int64, idx int) *Result {
	viol, stats := unit.C02Concurrent(seed)
	r := &Result{Scenario: "validate", Case: idx, Seed: seed, Stats: stats, Desc: "a fixed list of certificates with reference verdicts validated by 4..8 goroutines at once on one node"}
	for _, v := range viol {
		r.Viol = append(r.Viol, Violation{"C02", v[0], v[1]})
	}
	return r
}
