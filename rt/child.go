package rt

import (
	"crypto/sha256"
	"encoding/binary"
	"encoding/json"
	"fmt"
	"os"
)

func caseSeed(seed int64, scenario string, idx int) int64 {
	h := sha256.Sum256([]byte(fmt.Sprintf("%d|%s|%d", seed, scenario, idx)))
	return int64(binary.LittleEndian.Uint64(h[:8]) >> 1)
}

// Scenarios by name.
var Scenarios = map[string]func(seed int64, idx int) *Result{
	"stress":  func(s int64, i int) *Result { return RunStress(s, i, false) },
	"hostile": func(s int64, i int) *Result { return RunStress(s, i, true) },
	"sync":    RunSync,
	"flood":   RunFlood,
	"ctx":     RunCtx,
}

// ChildMain runs cases [from,to) of a scenario and prints one "RT|{json}" line per case.
func ChildMain(scenario string, seed int64, from, to int) int {
	f, ok := Scenarios[scenario]
	if !ok {
		fmt.Println("unknown scenario", scenario)
		return 2
	}
	for i := from; i < to; i++ {
		fmt.Printf("RTSTART|%s|%d\n", scenario, i)
		r := f(caseSeed(seed, scenario, i), i)
		r.Case = i
		b, _ := json.Marshal(r)
		fmt.Printf("RT|%s\n", b)
		os.Stdout.Sync()
	}
	fmt.Println("RTDONE")
	return 0
}
