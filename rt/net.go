// Package rt runs the real two-goroutine runtime (MainLoop + WorkerLoop + timer
// trigger) of several nodes in one process, built with the race detector, under
// loss / duplication / delay, blocking SPI fakes, log-keyed delays and an API
// driver; monitors decide over the recorded SPI event log.
package rt

import (
	"bytes"
	"context"
	"fmt"
	"math/rand"
	"strings"
	"sync"
	"sync/atomic"
	"time"

	"github.com/orbs-network/govnr"
	leanhelix "github.com/orbs-network/lean-helix-go"
	Electiontrigger "github.com/orbs-network/lean-helix-go/services/electiontrigger"
	"github.com/orbs-network/lean-helix-go/services/interfaces"
	"github.com/orbs-network/lean-helix-go/services/messagesfactory"
	"github.com/orbs-network/lean-helix-go/services/storage"
	"github.com/orbs-network/lean-helix-go/spec/types/go/primitives"
	"github.com/orbs-network/lean-helix-go/spec/types/go/protocol"
	"github.com/orbs-network/lean-helix-go/state"
	"github.com/orbs-network/scribe/log"

	"verif/sim"
	"verif/spi"
)

type Violation struct {
	Prop   string `json:"prop"`
	Rule   string `json:"rule"`
	Detail string `json:"detail"`
}

type Result struct {
	Scenario string         `json:"scenario"`
	Case     int            `json:"case"`
	Seed     int64          `json:"seed"`
	Viol     []Violation    `json:"viol"`
	Inconcl  []string       `json:"inconclusive"`
	Stats    map[string]int `json:"stats"`
	Desc     string         `json:"desc"`
}

type safeRand struct {
	mu sync.Mutex
	r  *rand.Rand
}

func (s *safeRand) Intn(n int) int { s.mu.Lock(); defer s.mu.Unlock(); return s.r.Intn(n) }

// ---------------------------------------------------------------- logger SPI: witness clock + delay injector

type rtLogger struct {
	node   string
	net    *Net
	mu     sync.Mutex
	pings  map[uint64]chan struct{}
	delays map[string]int // substring -> probability (percent) of a short sleep when a log line contains it
	seen   int64
}

func (l *rtLogger) line(s string) {
	if strings.Contains(s, "WORKERLOOP RECEIVED") {
		i := strings.LastIndex(s, "V=")
		if i >= 0 {
			var v uint64
			fmt.Sscan(s[i+2:], &v)
			l.mu.Lock()
			if ch, ok := l.pings[v]; ok {
				close(ch)
				delete(l.pings, v)
			}
			l.mu.Unlock()
		}
		atomic.AddInt64(&l.seen, 1)
	}
	for sub, pct := range l.delays {
		if strings.Contains(s, sub) && l.net.rng.Intn(100) < pct {
			time.Sleep(time.Duration(50+l.net.rng.Intn(600)) * time.Microsecond)
			l.net.count("delay injected at: " + sub)
		}
	}
}
func (l *rtLogger) signal(v uint64) {
	l.mu.Lock()
	if ch, ok := l.pings[v]; ok {
		close(ch)
		delete(l.pings, v)
	}
	l.mu.Unlock()
}

// witnessKM makes a worker iteration observable without log text: a ping is a PREPARE for the node's current
// height signed by the outsider x00, and the first thing the term does with a PREPARE is ask the KeyManager SPI
// to verify it.
type witnessKM struct {
	*spi.KM
	lg *rtLogger
}

func (k *witnessKM) VerifyConsensusMessage(h primitives.BlockHeight, content []byte, sender *protocol.SenderSignature) error {
	if sender != nil && string(sender.MemberId()) == "x00" {
		func() {
			defer func() { recover() }()
			k.lg.signal(uint64(protocol.BlockRefReader(content).View()))
		}()
	}
	return k.KM.VerifyConsensusMessage(h, content, sender)
}

// VerifyRandomSeed: the random seed a COMMIT's share is verified against identifies the term that is handling it. In the
// live-network scenarios (every sync carries the canonical proof) the seed of height h is a function of the certificate of
// h-1; a share of a height-h COMMIT verified against another seed means the message reached the protocol logic of a term of
// another height (C17; C08: "... for this instance and the node's current height").
func (k *witnessKM) VerifyRandomSeed(h primitives.BlockHeight, content []byte, sender *protocol.SenderSignature) error {
	if k.lg.net.opts.JudgeSeeds && sender != nil && len(sender.MemberId()) > 0 {
		k.lg.net.judgeSeed(k.lg.node, uint64(h), content)
	}
	return k.KM.VerifyRandomSeed(h, content, sender)
}

// SetSeed tells the seed judge which certificate's random-seed signature node entered height h with (scenarios whose syncs
// do not carry canonical proofs); unknown=true: not determinable (a commit and a sync for the same height raced).
func (net *Net) SetSeed(node string, h uint64, prevSig []byte, unknown bool) {
	net.mu.Lock()
	defer net.mu.Unlock()
	if net.seedFor == nil {
		net.seedFor = map[string]map[uint64]*seedInfo{}
	}
	if net.seedFor[node] == nil {
		net.seedFor[node] = map[uint64]*seedInfo{}
	}
	net.seedFor[node][h] = &seedInfo{append([]byte{}, prevSig...), unknown}
}

type seedInfo struct {
	prevSig []byte
	unknown bool
}

func (net *Net) judgeSeed(node string, h uint64, content []byte) {
	var prevSig []byte
	net.mu.Lock()
	scripted := net.seedFor != nil
	var si *seedInfo
	if scripted {
		si = net.seedFor[node][h]
	}
	net.mu.Unlock()
	if scripted {
		if si == nil || si.unknown {
			net.count("C17 seed checks skipped: seed of that height not determinable")
			return
		}
		net.count("C17 commits judged for the term that handled them")
		if want := sim.SeedBytesOf(si.prevSig); !bytes.Equal(content, want) {
			for _, p := range []string{"C17", "C08"} {
				net.violate(p, "message-handled-by-a-term-of-another-height", "node %s: the share of a COMMIT of height %d was verified against the random seed %q; the node entered that height with a certificate whose seed is %q: the message was handled by the protocol logic of a term of another height", node, h, content, want)
			}
		}
		return
	}
	if h >= 2 {
		c := net.Canon(h - 1)
		if c == nil {
			net.count("C17 seed checks skipped: certificate of the previous height not recorded yet")
			return
		}
		func() {
			defer func() { recover() }()
			prevSig = protocol.BlockProofReader(c.Proof).RandomSeedSignature()
		}()
	}
	net.count("C17 commits judged for the term that handled them")
	if want := sim.SeedBytesOf(prevSig); !bytes.Equal(content, want) {
		for _, p := range []string{"C17", "C08"} {
			net.violate(p, "message-handled-by-a-term-of-another-height", "node %s: the share of a COMMIT of height %d was verified against the random seed %q; the seed of that height (from the certificate of height %d) is %q: the message was handled by the protocol logic of a term of another height", node, h, content, h-1, want)
		}
	}
}

func (l *rtLogger) Debug(format string, args ...interface{})           { l.line(format) }
func (l *rtLogger) Info(format string, args ...interface{})            { l.line(format) }
func (l *rtLogger) Error(format string, args ...interface{})           { l.line(format) }
func (l *rtLogger) ConsensusTrace(format string, fields ...*log.Field) {}

// ---------------------------------------------------------------- election schedulers

// ManualES: the harness decides when a trigger is offered to the main loop.
type ManualES struct {
	mu   sync.Mutex
	node string
	net  *Net
	ch   chan *interfaces.ElectionTrigger
	h, v uint64
	cb   func(h primitives.BlockHeight, v primitives.View, cb interfaces.OnElectionCallback)
}

func (e *ManualES) RegisterOnElection(h primitives.BlockHeight, v primitives.View, cb func(h primitives.BlockHeight, v primitives.View, cb interfaces.OnElectionCallback)) {
	e.mu.Lock()
	e.h, e.v, e.cb = uint64(h), uint64(v), cb
	e.mu.Unlock()
	e.net.Log.Add(spi.Event{Node: e.node, Kind: spi.EvRegister, H: uint64(h), V: uint64(v)})
}
func (e *ManualES) ElectionChannel() chan *interfaces.ElectionTrigger { return e.ch }
func (e *ManualES) CalcTimeout(v primitives.View) time.Duration       { return time.Hour }
func (e *ManualES) Stop() {
	e.mu.Lock()
	e.cb = nil
	e.mu.Unlock()
	e.net.Log.Add(spi.Event{Node: e.node, Kind: spi.EvStop})
}
func (e *ManualES) Current() (uint64, uint64, bool) {
	e.mu.Lock()
	defer e.mu.Unlock()
	return e.h, e.v, e.cb != nil
}

// Fire offers a trigger for (h,v) to the main loop (what the expired timer of that pair would send).
func (e *ManualES) Fire(ctx context.Context, h, v uint64) bool {
	tr := &interfaces.ElectionTrigger{Hv: state.NewHeightView(primitives.BlockHeight(h), primitives.View(v)), MoveToNextLeader: func() {
		e.mu.Lock()
		cb := e.cb
		e.mu.Unlock()
		if cb != nil {
			cb(primitives.BlockHeight(h), primitives.View(v), nil)
		}
	}}
	select {
	case e.ch <- tr:
		return true
	case <-ctx.Done():
		return false
	case <-time.After(10 * time.Second):
		return false
	}
}

// DecoES decorates the real timer trigger: arming / stopping are recorded and the handler is wrapped, so
// that "a trigger was acted upon" is observable (C19, system level).
type DecoES struct {
	*Electiontrigger.TimerBasedElectionTrigger
	node  string
	net   *Net
	mu    sync.Mutex
	h, v  uint64
	arm   time.Time
	live  bool
	acted bool
}

func (e *DecoES) RegisterOnElection(h primitives.BlockHeight, v primitives.View, cb func(h primitives.BlockHeight, v primitives.View, cb interfaces.OnElectionCallback)) {
	e.mu.Lock()
	same := e.live && e.h == uint64(h) && e.v == uint64(v)
	if !same {
		e.h, e.v, e.arm, e.live, e.acted = uint64(h), uint64(v), time.Now(), true, false
	}
	e.mu.Unlock()
	e.net.Log.Add(spi.Event{Node: e.node, Kind: spi.EvRegister, H: uint64(h), V: uint64(v)})
	wrapped := func(h2 primitives.BlockHeight, v2 primitives.View, m interfaces.OnElectionCallback) {
		e.mu.Lock()
		cur := fmt.Sprintf("(%d,%d) live=%v", e.h, e.v, e.live)
		ok := e.live && e.h == uint64(h2) && e.v == uint64(v2)
		early := time.Since(e.arm) < e.TimerBasedElectionTrigger.CalcTimeout(v2)
		twice := e.acted
		if ok {
			e.acted = true
		}
		e.mu.Unlock()
		e.net.count("C19 election actions judged")
		if !ok {
			e.net.violate("C19", "stale-trigger-acted-upon", "node %s: election action for (%d,%d) reached the term while the registered pair is %s", e.node, h2, v2, cur)
		} else if early {
			e.net.violate("C19", "trigger-acted-upon-before-timeout", "node %s: election action for (%d,%d) before base*2^view elapsed", e.node, h2, v2)
		} else if twice {
			e.net.violate("C19", "two-triggers-for-one-arming", "node %s: second election action for one arming of (%d,%d)", e.node, h2, v2)
		}
		e.net.Log.Add(spi.Event{Node: e.node, Kind: spi.EvElectionCB, H: uint64(h2), V: uint64(v2), Ok: ok})
		cb(h2, v2, m)
	}
	e.TimerBasedElectionTrigger.RegisterOnElection(h, v, wrapped)
}

func (e *DecoES) Stop() {
	e.mu.Lock()
	e.live = false
	e.mu.Unlock()
	e.net.Log.Add(spi.Event{Node: e.node, Kind: spi.EvStop})
	e.TimerBasedElectionTrigger.Stop()
}

// ---------------------------------------------------------------- nodes and network

type commitRec struct {
	Block *spi.Blk
	Proof []byte
}

type RNode struct {
	Id          string
	net         *Net
	ML          *leanhelix.MainLoop
	BU          *spi.BlockUtils
	Mem         *spi.Membership
	Store       *spi.RecStorage
	Manual      *ManualES
	Deco        *DecoES
	Lg          *rtLogger
	ctx         context.Context
	Cancel      context.CancelFunc
	Waiter      govnr.ShutdownWaiter
	down        int32 // set when WaitUntilShutdown returned
	downSeq     uint64
	FailCommit  func(h uint64) bool
	BlockCommit func(ctx context.Context, h uint64) // optional: runs inside the commit callback
	BlockRound  func(ctx context.Context, h uint64) // optional: runs inside the new-round callback
	ping        *messagesfactory.MessageFactory
	pingNo      uint64
	syncNo      uint64
}

// Sync calls UpdateState the way hosts do: every other call with a request-scoped context that is cancelled as soon as the
// call has returned (the usual `ctx, cancel := ...; defer cancel()`), the others with the node's long-lived context. Whether
// the block takes effect must not depend on what happens to the caller's context after UpdateState returned nil. Every fifth
// call is preceded by an abandoned attempt with the same block (context cancelled before the call).
func (nd *RNode) Sync(b interfaces.Block, proof []byte) error {
	no := atomic.AddUint64(&nd.syncNo, 1)
	if no%5 == 3 {
		// a caller that gives up first: the same block offered under an already cancelled context (the call may fail or may still
		// get through), then the retry that counts
		gone, cancel := context.WithCancel(nd.ctx)
		cancel()
		nd.ML.UpdateState(gone, b, proof)
	}
	if no%2 == 0 {
		return nd.ML.UpdateState(nd.ctx, b, proof)
	}
	ctx, cancel := context.WithCancel(nd.ctx)
	defer cancel()
	return nd.ML.UpdateState(ctx, b, proof)
}

type Opts struct {
	N               int
	Weights         []uint64
	TimerBase       time.Duration // 0: manual election scheduler
	Drop, Dup       int
	MaxDelayUs      int
	LogDelays       map[string]int
	NoRouter        bool // messages are recorded only (single-node scenarios)
	RotateCommittee bool // the committee's order depends on the height
	JudgeSeeds      bool // judge the seed each COMMIT share is verified against (scenarios in which every sync carries the canonical proof)
}

type Net struct {
	Keys      *spi.Keys
	Log       *spi.Log
	Nodes     []*RNode
	byId      map[string]*RNode
	Committee []interfaces.CommitteeMember
	rng       *safeRand
	opts      *Opts
	mu        sync.Mutex
	viol      []Violation
	stats     map[string]int
	canon     map[uint64]*commitRec
	maxCanon  uint64
	frozen    int32                                                // router drops everything when set
	HoldSend  func(from *RNode, m *interfaces.ConsensusRawMessage) // optional: a slow transport (set before the nodes start)
	seedFor   map[string]map[uint64]*seedInfo
	inflight  sync.WaitGroup
}

func (n *Net) violate(prop, rule, format string, a ...interface{}) {
	n.mu.Lock()
	defer n.mu.Unlock()
	n.stats["viol "+prop+"/"+rule]++
	if n.stats["viol "+prop+"/"+rule] <= 3 {
		n.viol = append(n.viol, Violation{prop, rule, fmt.Sprintf(format, a...)})
	}
}
func (n *Net) count(k string)      { n.mu.Lock(); n.stats[k]++; n.mu.Unlock() }
func (n *Net) add(k string, d int) { n.mu.Lock(); n.stats[k] += d; n.mu.Unlock() }

func NewNet(seed int64, o *Opts) *Net {
	net := &Net{Log: &spi.Log{}, byId: map[string]*RNode{}, rng: &safeRand{r: rand.New(rand.NewSource(seed))}, opts: o, stats: map[string]int{}, canon: map[uint64]*commitRec{}}
	var ids []string
	for i := 0; i < o.N; i++ {
		ids = append(ids, fmt.Sprintf("nd%02d", i))
	}
	net.Keys = spi.NewKeys(append(append([]string{}, ids...), "x00"))
	for i, id := range ids {
		w := uint64(1)
		if i < len(o.Weights) {
			w = o.Weights[i]
		}
		net.Committee = append(net.Committee, interfaces.CommitteeMember{Id: primitives.MemberId(id), Weight: primitives.MemberWeight(w)})
	}
	for _, id := range ids {
		net.Nodes = append(net.Nodes, net.newNode(id))
	}
	return net
}

func (net *Net) newNode(id string) *RNode {
	n := &RNode{Id: id, net: net}
	net.byId[id] = n
	n.BU = &spi.BlockUtils{Node: id, Log: net.Log}
	n.Mem = &spi.Membership{Me: id, Log: net.Log, Committee: func(h uint64) []interfaces.CommitteeMember {
		if !net.opts.RotateCommittee {
			return net.Committee
		}
		// the ordered committee changes with the height: rotated by h, and every third height reversed
		k := len(net.Committee)
		out := make([]interfaces.CommitteeMember, k)
		for i := range out {
			out[i] = net.Committee[(i+int(h%uint64(k)))%k]
		}
		if h%3 == 0 {
			for a, b := 0, k-1; a < b; a, b = a+1, b-1 {
				out[a], out[b] = out[b], out[a]
			}
		}
		return out
	}}
	n.Store = &spi.RecStorage{Storage: storage.NewInMemoryStorage(), Node: id, Log: net.Log}
	n.Lg = &rtLogger{node: id, net: net, pings: map[uint64]chan struct{}{}, delays: net.opts.LogDelays}
	comm := &spi.Comm{Node: id, Log: net.Log, OnSend: func(to []string, m *interfaces.ConsensusRawMessage) { net.route(n, to, m) }}
	comm.Before = func(ctx context.Context, m *interfaces.ConsensusRawMessage) {
		if hold := net.HoldSend; hold != nil {
			hold(n, m)
		}
	}
	cfg := &interfaces.Config{
		InstanceId:    spi.InstanceId,
		Communication: comm,
		Membership:    n.Mem,
		BlockUtils:    n.BU,
		KeyManager:    &witnessKM{KM: net.Keys.Signer(id), lg: n.Lg},
		Storage:       n.Store,
		Logger:        n.Lg,
	}
	if net.opts.TimerBase > 0 {
		n.Deco = &DecoES{TimerBasedElectionTrigger: Electiontrigger.NewTimerBasedElectionTrigger(net.opts.TimerBase, nil), node: id, net: net}
		cfg.OverrideElectionTrigger = n.Deco
	} else {
		n.Manual = &ManualES{node: id, net: net, ch: make(chan *interfaces.ElectionTrigger)}
		cfg.OverrideElectionTrigger = n.Manual
	}
	n.ML = leanhelix.NewLeanHelix(cfg,
		func(ctx context.Context, b interfaces.Block, proof []byte) error {
			blk := spi.AsBlk(b)
			fail := n.FailCommit != nil && n.FailCommit(blk.H)
			late := atomic.LoadInt32(&n.down) == 1
			hv := n.ML.State().HeightView()
			net.Log.Add(spi.Event{Node: id, Kind: spi.EvCommit, H: blk.H, V: uint64(hv.View()), Hash: string(spi.HashOf(blk)), Block: blk, Proof: proof, Ok: !fail, CtxErr: ctx.Err() != nil, Note: lateNote(late)})
			if n.BlockCommit != nil {
				n.BlockCommit(ctx, blk.H)
			}
			if fail {
				return fmt.Errorf("injected commit failure")
			}
			net.mu.Lock()
			if _, ok := net.canon[blk.H]; !ok {
				net.canon[blk.H] = &commitRec{blk, proof}
				if blk.H > net.maxCanon {
					net.maxCanon = blk.H
				}
			}
			net.mu.Unlock()
			return nil
		},
		func(ctx context.Context, h primitives.BlockHeight, prev interfaces.Block, canBeFirstLeader bool) {
			hv := n.ML.State().HeightView()
			note := lateNote(atomic.LoadInt32(&n.down) == 1)
			if uint64(hv.Height()) != uint64(h) || hv.View() != 0 {
				note += fmt.Sprintf(" state=(%d,%d)", hv.Height(), hv.View())
			}
			net.Log.Add(spi.Event{Node: id, Kind: spi.EvNewRound, H: uint64(h), Ok: canBeFirstLeader, Block: spi.AsBlk(prev), Note: note})
			if n.BlockRound != nil {
				n.BlockRound(ctx, uint64(h))
			}
		})
	n.ping = messagesfactory.NewMessageFactory(spi.InstanceId, net.Keys.Signer("x00"), primitives.MemberId("x00"), 0)
	return n
}

func lateNote(late bool) string {
	if late {
		return "after-shutdown"
	}
	return ""
}

func (n *RNode) Start() {
	n.ctx, n.Cancel = context.WithCancel(context.Background())
	n.Waiter = n.ML.Run(n.ctx)
}

// route delivers with PRNG-determined drop / duplicate / delay.
func (net *Net) route(from *RNode, to []string, m *interfaces.ConsensusRawMessage) {
	if atomic.LoadInt32(&from.down) == 1 {
		net.violate("C16", "message-sent-after-shutdown", "node %s sent a message after WaitUntilShutdown returned", from.Id)
	}
	if net.opts.NoRouter {
		return
	}
	for _, t := range to {
		dst, ok := net.byId[t]
		if !ok || atomic.LoadInt32(&net.frozen) == 1 {
			continue
		}
		copies := 1
		if net.rng.Intn(100) < net.opts.Drop {
			net.count("router dropped")
			continue
		}
		if net.rng.Intn(100) < net.opts.Dup {
			copies = 2
			net.count("router duplicated")
		}
		for c := 0; c < copies; c++ {
			d := time.Duration(0)
			if net.opts.MaxDelayUs > 0 {
				d = time.Duration(net.rng.Intn(net.opts.MaxDelayUs)) * time.Microsecond
			}
			net.inflight.Add(1)
			go func() {
				defer net.inflight.Done()
				if d > 0 {
					time.Sleep(d)
				}
				if atomic.LoadInt32(&net.frozen) == 1 {
					return
				}
				dst.ML.HandleConsensusMessage(dst.ctx, m)
				net.count("router delivered")
			}()
		}
	}
}

// Barrier: one benign message through the main loop's unbuffered channel. When it returns, every
// stimulus sent earlier by this goroutine has been completely handled by the main loop.
func (n *RNode) Barrier() {
	n.pingNo++
	n.ML.HandleConsensusMessage(n.ctx, n.ping.CreatePrepareMessage(0, primitives.View(1<<40+n.pingNo), []byte("barrier")).ToConsensusRawMessage())
}

// Witness feeds k benign pings and waits until the worker announced each of them: k worker loop
// iterations have demonstrably happened. Returns how many were witnessed.
func (n *RNode) Witness(k int) int {
	got := 0
	for i := 0; i < k; i++ {
		n.pingNo++
		v := uint64(1<<41) + n.pingNo
		ch := make(chan struct{})
		n.Lg.mu.Lock()
		n.Lg.pings[v] = ch
		n.Lg.mu.Unlock()
		// a PREPARE for the height being decided reaches the KeyManager SPI (witness without log text); the worker's
		// own log line about the dequeued message is an equivalent second clock. If the height moves between sending
		// and dequeuing, the ping is filtered before either: it is re-sent.
		seen := false
		for try := 0; try < 50 && !seen; try++ {
			h, _ := n.HV()
			n.ML.HandleConsensusMessage(n.ctx, n.ping.CreatePrepareMessage(primitives.BlockHeight(h), primitives.View(v), []byte("ping")).ToConsensusRawMessage())
			select {
			case <-ch:
				seen = true
			case <-time.After(100 * time.Millisecond):
			}
		}
		if !seen {
			return got
		}
		got++
	}
	return got
}

func (n *RNode) HV() (uint64, uint64) {
	x := n.ML.State().HeightView()
	return uint64(x.Height()), uint64(x.View())
}

func (net *Net) Canon(h uint64) *commitRec {
	net.mu.Lock()
	defer net.mu.Unlock()
	return net.canon[h]
}
func (net *Net) MaxCanon() uint64 { net.mu.Lock(); defer net.mu.Unlock(); return net.maxCanon }

func (net *Net) result(scn string, idx int, seed int64, desc string) *Result {
	net.mu.Lock()
	defer net.mu.Unlock()
	st := map[string]int{}
	for k, v := range net.stats {
		st[k] = v
	}
	return &Result{Scenario: scn, Case: idx, Seed: seed, Viol: append([]Violation{}, net.viol...), Stats: st, Desc: desc}
}
