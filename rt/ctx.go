package rt

import (
	"context"
	"fmt"
	"math/rand"
	"sync"
	"sync/atomic"
	"time"

	"github.com/orbs-network/lean-helix-go/services/messagesfactory"
	"github.com/orbs-network/lean-helix-go/spec/types/go/primitives"

	"verif/ref"
	"verif/spi"
)

type capture struct {
	kind string
	h, v uint64
	ctx  context.Context
	done chan struct{}
	late bool // context already cancelled at entry
}

// RunCtx decides the runtime half of C15 on one real node: SPI calls park until their context is
// cancelled; stale triggers, current triggers, syncs and shutdown are applied; after each stimulus a
// main-loop barrier makes ctx.Err() of every captured context a deterministic fact.
func RunCtx(seed int64, idx int) *Result {
	rng := rand.New(rand.NewSource(seed))
	delays := map[string]int{}
	for _, k := range []string{"CANCELED WORKER CONTEXT", "WORKERLOOP ELECTION", "UPDATESTATE WORKERLOOP - Received"} {
		if rng.Intn(2) == 0 {
			delays[k] = 10 + rng.Intn(40)
		}
	}
	o := &Opts{N: 4, NoRouter: true, LogDelays: delays}
	net := NewNet(seed, o)
	me := 1 + rng.Intn(3) // n01..n03: leader of view `me` at height 1
	nd := net.Nodes[me]
	var mu sync.Mutex
	var caps []*capture
	lagUs := rng.Intn(600)
	park := func(kind string, ctx context.Context, h uint64) {
		_, v := nd.HV()
		c := &capture{kind: kind, h: h, v: v, ctx: ctx, done: make(chan struct{}), late: ctx.Err() != nil}
		mu.Lock()
		caps = append(caps, c)
		mu.Unlock()
		<-ctx.Done()
		if lagUs > 0 {
			time.Sleep(time.Duration(lagUs) * time.Microsecond)
		}
		close(c.done)
	}
	// what parks: the leader's proposal request (mode 0), the validation of a view-0 proposal (1), the validation of the
	// fresh block of a NEW_VIEW for the view the node already timed out into (2)
	// (3): the node joined a view above 0 through a NEW_VIEW — no trigger of its own has moved the registry — and then the
	// delayed proposal of view 0 arrives: its validation parks under the context of the long-left (H, 0)
	mode := []int{0, 0, 1, 2, 3}[rng.Intn(5)]
	H := uint64(1 + rng.Intn(3)) // the height everything happens at (above 1: the node gets there by a sync of block H-1)
	parkRequest := mode == 0 && rng.Intn(4) > 0
	parkValidate := mode != 0 || rng.Intn(2) == 0
	var parkArmed int32 = 1
	if mode == 3 {
		parkArmed = 0 // the NEW_VIEW's own block is validated without parking; the park is armed afterwards
	}
	nd.BU.OnRequest = func(ctx context.Context, h uint64) {
		if parkRequest {
			park("RequestNewBlockProposal", ctx, h)
		}
	}
	nd.BU.OnValidate = func(ctx context.Context, h uint64, b *spi.Blk) {
		if parkValidate && atomic.LoadInt32(&parkArmed) == 1 {
			park("ValidateBlockProposal", ctx, h)
		}
	}
	desc := fmt.Sprintf("node %s, mode=%d parkRequest=%v parkValidate=%v lag=%dus", nd.Id, mode, parkRequest, parkValidate, lagUs)
	if rng.Intn(4) == 0 {
		// variant: the SPI call parks while the term of height 1 is still being constructed (the committee request, or the
		// view-0 leader's proposal request inside the term's start), and the only thing that follows is shutdown
		nd = net.Nodes[0]
		which := rng.Intn(2)
		if which == 0 {
			nd.BU.OnRequest = func(ctx context.Context, h uint64) { park("RequestNewBlockProposal", ctx, h) }
		} else {
			nd.Mem.OnRequest = func(ctx context.Context, h uint64) error { park("RequestOrderedCommittee", ctx, h); return ctx.Err() }
		}
		desc = fmt.Sprintf("node %s parks in %s during the construction of the term of height 1, then shutdown", nd.Id, []string{"RequestNewBlockProposal", "RequestOrderedCommittee"}[which])
		nd.Start()
		nd.Sync(nil, nil)
		parked := false
		for i := 0; i < 50000 && !parked; i++ {
			mu.Lock()
			parked = len(caps) > 0
			mu.Unlock()
			time.Sleep(100 * time.Microsecond)
		}
		if !parked {
			net.count("inconclusive: no SPI call captured")
		} else {
			net.count("C15 construction-time parkings judged")
		}
		nd.Cancel()
		c3, cancel3 := context.WithTimeout(context.Background(), 20*time.Second)
		nd.Waiter.WaitUntilShutdown(c3)
		if c3.Err() != nil {
			net.violate("C15", "blocking-spi-call-stalls-shutdown", "%s: WaitUntilShutdown did not return within 20 s: the call waiting on its context was not released by shutdown", desc)
		}
		cancel3()
		return net.result("ctx", idx, seed, desc)
	}
	nd.BU.NilOnCancel = rng.Intn(2) == 0 // a block factory that gives up (returns no block) when its context is cancelled
	nd.Start()
	if H == 1 {
		nd.Sync(nil, nil)
	} else {
		nd.Sync(&spi.Blk{H: H - 1, Body: "synced"}, nil)
	}
	if nd.Witness(8) < 8 {
		net.count("inconclusive: worker iterations not witnessed")
		return net.result("ctx", idx, seed, desc)
	}
	factory := func(id string) *messagesfactory.MessageFactory {
		return messagesfactory.NewMessageFactory(spi.InstanceId, net.Keys.Signer(id), primitives.MemberId(id), 0)
	}
	lastCap := func() *capture {
		mu.Lock()
		defer mu.Unlock()
		if len(caps) == 0 {
			return nil
		}
		return caps[len(caps)-1]
	}
	waitCap := func(n int) bool {
		for i := 0; i < 50000; i++ {
			mu.Lock()
			l := len(caps)
			mu.Unlock()
			if l >= n {
				return true
			}
			time.Sleep(100 * time.Microsecond)
		}
		return false
	}
	fire := func(h, v uint64) { nd.Manual.Fire(nd.ctx, h, v) }
	// bring the node to the view it leads by firing its timers view by view; in half of the cases stop one view below, so
	// that the votes of the others elect it while it has not timed out of that lower view itself
	reach := uint64(me)
	if rng.Intn(2) == 0 {
		reach = uint64(me) - 1
	}
	pv := uint64(me) // the view of the position in which the SPI call parks
	switch mode {
	case 1:
		reach, pv = 0, 0
	case 2:
		pv = uint64(me%3) + 1 // a view above 0 led by another member
		reach = pv
	case 3:
		pv = uint64(me%3) + 1
		reach = 0 // the NEW_VIEW takes the node from view 0 straight to pv
	}
	for v := uint64(0); v < reach; v++ {
		fire(H, v)
		nd.Barrier()
		nd.Witness(4)
	}
	if _, v := nd.HV(); v != reach {
		net.count("inconclusive: node did not reach the view it leads")
		nd.Cancel()
		return net.result("ctx", idx, seed, desc)
	}
	var c *capture
	if parkRequest {
		// votes of two other members elect the node: it parks inside RequestNewBlockProposal at (1, me)
		for _, other := range net.Nodes {
			if other.Id == nd.Id {
				continue
			}
			nd.ML.HandleConsensusMessage(nd.ctx, factory(other.Id).CreateViewChangeMessage(primitives.BlockHeight(H), primitives.View(me), nil).ToConsensusRawMessage())
		}
		if !waitCap(1) {
			net.count("inconclusive: no SPI call captured")
			nd.Cancel()
			return net.result("ctx", idx, seed, desc)
		}
		c = lastCap()
	} else if mode == 1 {
		if me != 1 && rng.Intn(2) == 0 {
			// first the proposal of view 1's leader arrives early: it is validated (under the context of (H, 1), which the worker
			// thereby creates in the registry) and put aside, since the node is still in view 0
			atomic.StoreInt32(&parkArmed, 0)
			early := &spi.Blk{H: H, Body: "early-proposal-of-view-1"}
			nd.ML.HandleConsensusMessage(nd.ctx, factory(net.Nodes[1].Id).CreatePreprepareMessage(primitives.BlockHeight(H), 1, early, spi.HashOf(early)).ToConsensusRawMessage())
			nd.Witness(8)
			atomic.StoreInt32(&parkArmed, 1)
			net.count("C15 cases with the next view's proposal validated before the current view's call parks")
		}
		// the proposal of view 0's leader: the node parks inside ValidateBlockProposal at (1, 0)
		blk := &spi.Blk{H: H, Body: "proposal-of-view-0"}
		nd.ML.HandleConsensusMessage(nd.ctx, factory(net.Nodes[0].Id).CreatePreprepareMessage(primitives.BlockHeight(H), 0, blk, spi.HashOf(blk)).ToConsensusRawMessage())
		if !waitCap(1) {
			net.count("inconclusive: no SPI call captured")
			nd.Cancel()
			return net.result("ctx", idx, seed, desc)
		}
		c = lastCap()
		net.count("C15 validations of a view-0 proposal parked")
	} else if mode == 2 {
		// a valid NEW_VIEW for the view the node has timed out into, proposing a fresh block (no vote carries a proof):
		// the node parks inside ValidateBlockProposal at (1, pv)
		leader := net.Nodes[int(pv)%len(net.Nodes)].Id
		var votes []*ref.Vote
		for _, other := range net.Nodes {
			if other.Id == nd.Id {
				continue
			}
			vt := &ref.Vote{Type: ref.VC, Inst: uint64(spi.InstanceId), H: H, V: pv}
			vt.Sender = ref.Sig{Id: other.Id, Sig: net.Keys.SignCM(other.Id, H, vt.HeaderBytes())}
			votes = append(votes, vt)
		}
		blk := &spi.Blk{H: H, Body: "fresh-block-of-the-new-view"}
		emb := &ref.Ref{Type: ref.PP, Inst: uint64(spi.InstanceId), H: H, V: pv, Hash: spi.HashOf(blk)}
		embSig := &ref.Sig{Id: leader, Sig: net.Keys.SignCM(leader, H, emb.Bytes())}
		sg := ref.Sig{Id: leader, Sig: net.Keys.SignCM(leader, H, ref.NVHeaderBytes(ref.NV, uint64(spi.InstanceId), H, pv, votes))}
		nd.ML.HandleConsensusMessage(nd.ctx, ref.RawNewViewMsg(ref.NV, uint64(spi.InstanceId), H, pv, votes, sg, emb, embSig, blk))
		if !waitCap(1) {
			net.count("inconclusive: no SPI call captured")
			nd.Cancel()
			return net.result("ctx", idx, seed, desc)
		}
		c = lastCap()
		net.count("C15 validations of a NEW_VIEW's fresh block parked")
	} else if mode == 3 {
		leader := net.Nodes[int(pv)%len(net.Nodes)].Id
		var votes []*ref.Vote
		for _, other := range net.Nodes {
			if other.Id == nd.Id {
				continue
			}
			vt := &ref.Vote{Type: ref.VC, Inst: uint64(spi.InstanceId), H: H, V: pv}
			vt.Sender = ref.Sig{Id: other.Id, Sig: net.Keys.SignCM(other.Id, H, vt.HeaderBytes())}
			votes = append(votes, vt)
		}
		blk := &spi.Blk{H: H, Body: "fresh-block-of-the-new-view"}
		emb := &ref.Ref{Type: ref.PP, Inst: uint64(spi.InstanceId), H: H, V: pv, Hash: spi.HashOf(blk)}
		embSig := &ref.Sig{Id: leader, Sig: net.Keys.SignCM(leader, H, emb.Bytes())}
		sg := ref.Sig{Id: leader, Sig: net.Keys.SignCM(leader, H, ref.NVHeaderBytes(ref.NV, uint64(spi.InstanceId), H, pv, votes))}
		nd.ML.HandleConsensusMessage(nd.ctx, ref.RawNewViewMsg(ref.NV, uint64(spi.InstanceId), H, pv, votes, sg, emb, embSig, blk))
		nd.Witness(8)
		if _, v := nd.HV(); v != pv {
			net.count("inconclusive: node did not adopt the NEW_VIEW")
			nd.Cancel()
			return net.result("ctx", idx, seed, desc)
		}
		atomic.StoreInt32(&parkArmed, 1)
		old := &spi.Blk{H: H, Body: "delayed-proposal-of-view-0"}
		nd.ML.HandleConsensusMessage(nd.ctx, factory(net.Nodes[0].Id).CreatePreprepareMessage(primitives.BlockHeight(H), 0, old, spi.HashOf(old)).ToConsensusRawMessage())
		if !waitCap(1) {
			net.count("inconclusive: no SPI call captured")
			nd.Cancel()
			return net.result("ctx", idx, seed, desc)
		}
		c = lastCap()
		net.count("C15 validations of a delayed view-0 proposal parked after a NEW_VIEW")
	}
	net.count("C15 rt cases")
	if c != nil {
		net.count("C15 contexts captured")
		if c.late {
			net.violate("C15", "spi-call-entered-with-cancelled-context", "%s for (H,%d) was entered with an already cancelled context although nothing had told the node to leave that position", c.kind, pv)
		}
		// 1. a stale trigger (older view) must not cancel the current position's context
		steps := rng.Intn(3)
		if pv == 0 || mode == 3 {
			steps = 0 // (mode 3: the captured context belongs to a view the node has left; older triggers may well cancel it)
		}
		if H > 1 && mode != 3 && rng.Intn(2) == 0 {
			// a late trigger of the previous height (a timer goroutine that lost the race with Stop, or a commit that landed between
			// the timer firing and the main loop reading it): an event about an older position
			for k := 0; k < 1+rng.Intn(2); k++ {
				fire(H-1, uint64(rng.Intn(int(pv)+3)))
				nd.Barrier()
				net.count("C15 stale triggers judged")
				net.count("C15 triggers of an earlier height judged")
				if c.ctx.Err() != nil {
					net.violate("C15", "stale-trigger-cancelled-current-context", "an election trigger of the earlier height %d cancelled the context of the current position (%d,%d) in which %s is waiting", H-1, H, pv, c.kind)
					break
				}
			}
		}
		for s := 0; s < steps; s++ {
			sv := uint64(rng.Intn(int(pv)))
			if s == 0 && reach < pv {
				sv = reach // its own, now outdated, trigger of the view it was in when the others elected it
			}
			fire(H, sv)
			nd.Barrier()
			net.count("C15 stale triggers judged")
			if c.ctx.Err() != nil {
				net.violate("C15", "stale-trigger-cancelled-current-context", "an election trigger for an older view of height 1 cancelled the context of the current position (H,%d) in which %s is waiting", pv, c.kind)
				break
			}
		}
		// 2. the stimulus that tells the node to leave: its own election trigger, or a sync to a higher height
		leave := rng.Intn(2)
		if leave == 0 {
			fire(H, pv)
		} else {
			nd.Sync(&spi.Blk{H: H + uint64(rng.Intn(4)), Body: "synced"}, nil)
		}
		nd.Barrier()
		net.count("C15 leave stimuli judged")
		if c.ctx.Err() == nil {
			net.violate("C15", "context-not-cancelled-when-told-to-leave", "%s is waiting on the context of (H,%d); after %s and a main-loop barrier the context is still live", c.kind, pv, []string{"the election trigger of that view", "a sync to a higher height"}[leave])
		}
		select {
		case <-c.done:
		case <-time.After(10 * time.Second):
			net.violate("C15", "spi-call-not-released", "%s did not return although it only waits on its context", c.kind)
		}
		nd.Witness(16)
		if leave == 0 {
			// the trigger of the registered, current pair was offered (possibly while a stale trigger still sat in the
			// worker's one-slot inbox): it must have been acted upon
			net.count("C19 current triggers judged")
			if h, v := nd.HV(); h == H && v <= pv {
				net.violate("C19", "current-trigger-not-acted-upon", "the election trigger of the registered pair (H,%d) was handed to the main loop (after %d stale triggers while the worker was inside an SPI call); after 16 witnessed worker iterations the node is still in view %d", pv, steps, v)
			}
		}
		// 3a. a fresh proposal whose validation ended under a cancelled context is not adopted (no PREPARE for it)
		if mode != 0 {
			cancelledValidation := false
			for _, e := range net.Log.Snapshot() {
				if e.Kind == spi.EvValidate && e.Node == nd.Id && e.H == H && e.CtxErr {
					cancelledValidation = true
				}
				if cancelledValidation && e.Kind == spi.EvSend && e.Node == nd.Id && e.Raw != nil {
					if m, ok := ref.Decode(e.Raw); ok && m.Env == ref.EnvP && m.H == H && m.V == pv {
						for _, p := range []string{"C07", "C15"} {
							net.violate(p, "proposal-adopted-although-its-validation-was-cancelled", "the node was told to leave (%d,%d) while ValidateBlockProposal for that position's proposal was running; the call returned under the cancelled context, yet the node sent PREPARE for (%d,%d)", H, pv, H, pv)
						}
					}
				}
			}
			net.count("C07 cancelled validations judged")
		}
		// 3. the block produced under the cancelled context must not be broadcast
		for _, e := range net.Log.Snapshot() {
			if e.Kind == spi.EvSend && e.Node == nd.Id && e.Raw != nil {
				if m, ok := ref.Decode(e.Raw); ok && (m.Env == ref.EnvNV || m.Env == ref.EnvPP) && m.H == H && m.V == pv && mode == 0 {
					net.violate("C15", "proposal-broadcast-after-cancelled-spi-call", "the node broadcast %s for (H,%d) with the block returned by a RequestNewBlockProposal whose context had been cancelled", m.Env, pv)
					if m.Block == nil {
						net.violate("C11", "correct-leader-announced-a-view-without-a-block", "the node's RequestNewBlockProposal was cancelled and returned no block; the node nevertheless broadcast %s for (%d,%d) — with no block, which no correct peer accepts", m.Env, H, pv)
					}
				}
			}
		}
	}
	// 4. shutdown releases whatever is still waiting
	nd.Cancel()
	c2, cancel2 := context.WithTimeout(context.Background(), 20*time.Second)
	nd.Waiter.WaitUntilShutdown(c2)
	if c2.Err() != nil {
		net.violate("C15", "blocking-spi-call-stalls-shutdown", "WaitUntilShutdown did not return: an SPI call waiting on its context was not released by shutdown")
	}
	cancel2()
	mu.Lock()
	for _, x := range caps {
		select {
		case <-x.done:
		default:
			if x.ctx.Err() == nil {
				net.violate("C15", "context-live-after-shutdown", "%s for height %d still waits on a live context after shutdown", x.kind, x.h)
			}
		}
	}
	mu.Unlock()
	return net.result("ctx", idx, seed, desc)
}
