package spi

import (
	"bytes"
	"context"
	"crypto/sha256"
	"errors"
	"fmt"
	"strings"
	"sync"
	"sync/atomic"

	"github.com/orbs-network/lean-helix-go/services/interfaces"
	"github.com/orbs-network/lean-helix-go/spec/types/go/primitives"
	pkgerrors "github.com/pkg/errors"
)

const InstanceId = primitives.InstanceId(7)
const OtherInstanceId = primitives.InstanceId(8)

// ---------------------------------------------------------------- blocks

type Blk struct {
	H    uint64
	Body string
	Bad  bool // a block every correct validator rejects
}

func (b *Blk) Height() primitives.BlockHeight             { return primitives.BlockHeight(b.H) }
func (b *Blk) ReferenceTime() primitives.TimestampSeconds { return primitives.TimestampSeconds(b.H) }
func (b *Blk) String() string                             { return fmt.Sprintf("Blk{h=%d %q bad=%v}", b.H, b.Body, b.Bad) }

func HashOf(b interfaces.Block) primitives.BlockHash {
	bb, ok := b.(*Blk)
	if !ok || bb == nil {
		return nil
	}
	s := sha256.Sum256([]byte(fmt.Sprintf("%d|%s|%v", bb.H, bb.Body, bb.Bad)))
	return s[:]
}

func AsBlk(b interfaces.Block) *Blk {
	bb, _ := b.(*Blk)
	return bb
}

// ---------------------------------------------------------------- event log

type Kind int

const (
	EvSend Kind = iota
	EvStorePP
	EvStoreP
	EvStoreC
	EvStoreVC
	EvCommit
	EvNewRound
	EvValidate
	EvRequestBlock
	EvCommittee
	EvRegister
	EvStop
	EvElectionCB
	EvPanic
)

var kindNames = []string{"send", "storePP", "storeP", "storeC", "storeVC", "commit", "newRound", "validate", "requestBlock", "committee", "register", "stop", "electionCB", "panic"}

func (k Kind) String() string { return kindNames[k] }

// Event is one observation at the SPI boundary of one node.
type Event struct {
	Seq    uint64
	Node   string
	Kind   Kind
	H, V   uint64
	Hash   string // raw hash bytes
	Sender string // raw member id bytes
	Ok     bool   // Store*: return value; validate: accepted; newRound: canBeFirstLeader
	To     []string
	Raw    *interfaces.ConsensusRawMessage
	Msg    interface{} // typed message object handed to Store*
	Block  *Blk
	Proof  []byte
	CtxErr bool // context already cancelled at entry / at return
	Note   string
}

// Log is a goroutine-safe append-only event log with one logical clock.
type Log struct {
	mu  sync.Mutex
	seq uint64
	Ev  []Event
	// Sink, when set, is called synchronously for every event (online monitors).
	Sink func(e *Event)
}

func (l *Log) Add(e Event) uint64 {
	l.mu.Lock()
	l.seq++
	e.Seq = l.seq
	l.Ev = append(l.Ev, e)
	p := &l.Ev[len(l.Ev)-1]
	sink := l.Sink
	l.mu.Unlock()
	if sink != nil {
		sink(p)
	}
	return e.Seq
}

func (l *Log) Len() int { l.mu.Lock(); defer l.mu.Unlock(); return len(l.Ev) }

func (l *Log) Snapshot() []Event {
	l.mu.Lock()
	defer l.mu.Unlock()
	return append([]Event(nil), l.Ev...)
}

func (l *Log) Now() uint64 { l.mu.Lock(); defer l.mu.Unlock(); return l.seq }

// ---------------------------------------------------------------- block utils

// PanicBody: blocks whose body starts with it make the consumer's validator panic.
const PanicBody = "PANIC"

// ConsumerPanic is the value the fake consumer panics with (monitors tell it from a panic of the library).
type ConsumerPanic struct{ What string }

func (c ConsumerPanic) String() string { return "consumer panic: " + c.What }

// BlockUtils is the consumer-side block factory / validator of one node.
type BlockUtils struct {
	Node string
	Log  *Log
	cnt  uint64
	// RejectBody: bodies this node's validator rejects although the block is good
	// (allowed consumer behaviour).
	RejectBody map[string]bool
	// AcceptNilBlock: a lenient consumer that does not object to a proposal without a block.
	AcceptNilBlock bool
	// NilOnCancel: RequestNewBlockProposal answers a cancelled context by returning no block at all.
	NilOnCancel bool
	// NilLive (optional): the factory has nothing to propose right now and returns no block although its context is live.
	NilLive func(h uint64) bool
	// Hooks (optional). OnRequest runs inside RequestNewBlockProposal before the block is minted;
	// OnValidate runs inside ValidateBlockProposal before the verdict.
	OnRequest  func(ctx context.Context, h uint64)
	OnValidate func(ctx context.Context, h uint64, b *Blk)
}

func (u *BlockUtils) RequestNewBlockProposal(ctx context.Context, h primitives.BlockHeight, id primitives.MemberId, prev interfaces.Block) (interfaces.Block, primitives.BlockHash) {
	entryErr := ctx.Err() != nil
	if u.OnRequest != nil {
		u.OnRequest(ctx, uint64(h))
	}
	if u.NilOnCancel && ctx.Err() != nil {
		u.Log.Add(Event{Node: u.Node, Kind: EvRequestBlock, H: uint64(h), CtxErr: true, Note: "nil block returned"})
		return nil, nil
	}
	if u.NilLive != nil && ctx.Err() == nil && u.NilLive(uint64(h)) {
		u.Log.Add(Event{Node: u.Node, Kind: EvRequestBlock, H: uint64(h), Note: "nil block returned under a live context"})
		return nil, nil
	}
	n := atomic.AddUint64(&u.cnt, 1)
	b := &Blk{H: uint64(h), Body: fmt.Sprintf("by-%s-%d", u.Node, n)}
	u.Log.Add(Event{Node: u.Node, Kind: EvRequestBlock, H: uint64(h), Hash: string(HashOf(b)), Block: b, CtxErr: entryErr || ctx.Err() != nil})
	return b, HashOf(b)
}

func (u *BlockUtils) ValidateBlockProposal(ctx context.Context, h primitives.BlockHeight, id primitives.MemberId, block interfaces.Block, hash primitives.BlockHash, prev interfaces.Block) error {
	var err error
	b := AsBlk(block)
	if u.OnValidate != nil {
		u.OnValidate(ctx, uint64(h), b)
	}
	if b != nil && strings.HasPrefix(b.Body, PanicBody) {
		// a consumer whose validator crashes on an unexpected block shape: whatever the library makes of it, this is not an approval
		u.Log.Add(Event{Node: u.Node, Kind: EvValidate, H: uint64(h), Hash: string(hash), Sender: string(id), Block: b, Ok: false, CtxErr: ctx.Err() != nil, Note: "validator panicked"})
		panic(ConsumerPanic{What: "ValidateBlockProposal: unexpected block shape " + b.Body})
	}
	switch {
	case b == nil && u.AcceptNilBlock:
		err = nil
	case b == nil:
		err = errors.New("nil block")
	case b.Bad:
		err = errors.New("bad block")
	case b.H != uint64(h):
		err = errors.New("wrong height")
	case !bytes.Equal(HashOf(b), hash):
		err = errors.New("hash mismatch")
	case u.RejectBody != nil && u.RejectBody[b.Body]:
		err = errors.New("consumer rejects")
	}
	u.Log.Add(Event{Node: u.Node, Kind: EvValidate, H: uint64(h), Hash: string(hash), Sender: string(id), Block: b, Ok: err == nil, CtxErr: ctx.Err() != nil})
	if err != nil && len(hash) > 0 && hash[0]&1 == 1 {
		// a validator that ran into a deadline of its own while checking the block against its state: still a rejection — the
		// context the library handed in is not cancelled
		err = pkgerrors.Wrap(context.DeadlineExceeded, "could not confirm the block in time: "+err.Error())
	}
	return err
}

func (u *BlockUtils) ValidateBlockCommitment(h primitives.BlockHeight, block interfaces.Block, hash primitives.BlockHash) bool {
	b := AsBlk(block)
	if b == nil {
		return false
	}
	return bytes.Equal(HashOf(b), hash)
}

// ---------------------------------------------------------------- membership

type Membership struct {
	Me  string
	Log *Log
	// Committee is a function of the height only.
	Committee func(h uint64) []interfaces.CommitteeMember
	// OnRequest (optional) may block or fail.
	OnRequest func(ctx context.Context, h uint64) error
	// KeyedByRefTime: the committee is looked up by the previous block's reference time (+1) instead of the height argument.
	KeyedByRefTime bool
	// OnProofRequest (optional) may fail RequestCommitteeForBlockProof.
	OnProofRequest func(ctx context.Context, h uint64) error
}

func (m *Membership) MyMemberId() primitives.MemberId { return primitives.MemberId(m.Me) }

func (m *Membership) RequestOrderedCommittee(ctx context.Context, h primitives.BlockHeight, seed uint64, t primitives.TimestampSeconds) ([]interfaces.CommitteeMember, error) {
	if m.Log != nil {
		m.Log.Add(Event{Node: m.Me, Kind: EvCommittee, H: uint64(h), CtxErr: ctx.Err() != nil})
	}
	if m.OnRequest != nil {
		if err := m.OnRequest(ctx, uint64(h)); err != nil {
			return nil, err
		}
	}
	return copyCommittee(m.Committee(m.byRefTime(uint64(h), t))), nil
}

func (m *Membership) RequestCommitteeForBlockProof(ctx context.Context, h primitives.BlockHeight, t primitives.TimestampSeconds) ([]interfaces.CommitteeMember, error) {
	if m.OnProofRequest != nil {
		if err := m.OnProofRequest(ctx, uint64(h)); err != nil {
			return nil, err
		}
	}
	// the committee for a block proof is a set: it is handed out in another order than the ordered committee (reversed)
	c := copyCommittee(m.Committee(m.byRefTime(uint64(h), t)))
	for a, b := 0, len(c)-1; a < b; a, b = a+1, b-1 {
		c[a], c[b] = c[b], c[a]
	}
	return c, nil
}

// byRefTime: the committee contract is keyed by the reference time of the *previous* block (the harness's
// blocks carry their height as reference time, genesis 0): asking with another block's reference time yields
// that other height's committee, as a real time-keyed contract would.
func (m *Membership) byRefTime(h uint64, t primitives.TimestampSeconds) uint64 {
	if !m.KeyedByRefTime {
		return h
	}
	return uint64(t) + 1
}

// every call hands out a fresh slice: the consumer owns its committee list, the library must not rely on (or alter) a shared one
func copyCommittee(c []interfaces.CommitteeMember) []interfaces.CommitteeMember {
	if c == nil {
		return nil
	}
	return append([]interfaces.CommitteeMember{}, c...)
}

// ---------------------------------------------------------------- storage recorder

// RecStorage decorates the real in-memory storage and records every Store* call.
type RecStorage struct {
	interfaces.Storage
	Node string
	Log  *Log
}

func (s *RecStorage) StorePreprepare(m *interfaces.PreprepareMessage) bool {
	r := s.Storage.StorePreprepare(m)
	s.Log.Add(Event{Node: s.Node, Kind: EvStorePP, H: uint64(m.BlockHeight()), V: uint64(m.View()), Hash: string(m.Content().SignedHeader().BlockHash()), Sender: string(m.SenderMemberId()), Ok: r, Msg: m, Block: AsBlk(m.Block())})
	return r
}

func (s *RecStorage) StorePrepare(m *interfaces.PrepareMessage) bool {
	r := s.Storage.StorePrepare(m)
	s.Log.Add(Event{Node: s.Node, Kind: EvStoreP, H: uint64(m.BlockHeight()), V: uint64(m.View()), Hash: string(m.Content().SignedHeader().BlockHash()), Sender: string(m.SenderMemberId()), Ok: r, Msg: m})
	return r
}

func (s *RecStorage) StoreCommit(m *interfaces.CommitMessage) bool {
	r := s.Storage.StoreCommit(m)
	s.Log.Add(Event{Node: s.Node, Kind: EvStoreC, H: uint64(m.BlockHeight()), V: uint64(m.View()), Hash: string(m.Content().SignedHeader().BlockHash()), Sender: string(m.SenderMemberId()), Ok: r, Msg: m})
	return r
}

func (s *RecStorage) StoreViewChange(m *interfaces.ViewChangeMessage) bool {
	r := s.Storage.StoreViewChange(m)
	s.Log.Add(Event{Node: s.Node, Kind: EvStoreVC, H: uint64(m.BlockHeight()), V: uint64(m.View()), Sender: string(m.SenderMemberId()), Ok: r, Msg: m, Block: AsBlk(m.Block())})
	return r
}

// ---------------------------------------------------------------- communication

// Comm records every send; the engine decides delivery.
type Comm struct {
	Node   string
	Log    *Log
	OnSend func(to []string, m *interfaces.ConsensusRawMessage)
	// FailSend (optional): the transport reports an error for this send although the message went out
	// (e.g. one recipient unreachable). The library only logs it.
	FailSend func() bool
	// Before (optional) runs first inside SendConsensusMessage: a slow transport.
	Before func(ctx context.Context, m *interfaces.ConsensusRawMessage)
}

func (c *Comm) SendConsensusMessage(ctx context.Context, to []primitives.MemberId, m *interfaces.ConsensusRawMessage) error {
	if c.Before != nil {
		c.Before(ctx, m)
	}
	tos := make([]string, len(to))
	for i, t := range to {
		tos[i] = string(t)
	}
	ev := Event{Node: c.Node, Kind: EvSend, To: tos, Raw: m}
	if cm := SafeParse(m); cm != nil {
		ev.H, ev.V, ev.Sender = uint64(cm.BlockHeight()), uint64(cm.View()), string(cm.SenderMemberId())
	}
	c.Log.Add(ev)
	if c.OnSend != nil {
		c.OnSend(tos, m)
	}
	if c.FailSend != nil && c.FailSend() {
		return errors.New("transport: a recipient is unreachable")
	}
	return nil
}

// SafeParse parses a raw message, turning parser panics into nil.
func SafeParse(m *interfaces.ConsensusRawMessage) (cm interfaces.ConsensusMessage) {
	defer func() {
		if r := recover(); r != nil {
			cm = nil
		}
	}()
	if m == nil {
		return nil
	}
	cm = interfaces.ToConsensusMessage(m)
	if cm == nil {
		return nil
	}
	// touch the fields everything relies on so lazy-parse panics surface here
	_ = cm.MessageType()
	_ = cm.InstanceId()
	_ = cm.BlockHeight()
	_ = cm.View()
	_ = cm.SenderMemberId()
	return cm
}
