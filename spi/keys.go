package spi

import (
	"bytes"
	"context"
	"crypto/hmac"
	"crypto/sha256"
	"encoding/binary"
	"errors"

	"github.com/orbs-network/lean-helix-go/spec/types/go/primitives"
	"github.com/orbs-network/lean-helix-go/spec/types/go/protocol"
)

// Keys is the public registry of an HMAC based signature scheme: every id in the
// universe (committee members of any height and outsiders) has its own secret.
// A verifier looks the *claimed* sender up in the registry, so a signature made
// by another key, a stripped signature and a replayed genuine signature are all
// distinguishable. Harness code hands the signer object (KM) of an id only to
// the party that owns it.
type Keys struct {
	secret map[string][]byte
	master []byte
}

func NewKeys(ids []string) *Keys {
	k := &Keys{secret: map[string][]byte{}, master: []byte("master-secret/lean-helix-verif")}
	for _, id := range ids {
		k.secret[id] = []byte("secret-of/" + id)
	}
	return k
}

func (k *Keys) Has(id string) bool { _, ok := k.secret[id]; return ok }

// Mac is length-prefixed HMAC-SHA256 over the parts.
func Mac(key []byte, parts ...[]byte) []byte {
	h := hmac.New(sha256.New, key)
	for _, p := range parts {
		var l [8]byte
		binary.LittleEndian.PutUint64(l[:], uint64(len(p)))
		h.Write(l[:])
		h.Write(p)
	}
	return h.Sum(nil)
}

func U64(x uint64) []byte { var b [8]byte; binary.LittleEndian.PutUint64(b[:], x); return b[:] }

// SignCM is what a holder of id's secret produces over a consensus message header.
func (k *Keys) SignCM(id string, h uint64, content []byte) []byte {
	return Mac(k.secret[id], []byte("CM"), U64(h), content)
}

// VerifyCM is the reference verification (used by the fake key manager and by the oracles).
func (k *Keys) VerifyCM(id string, h uint64, content, sig []byte) bool {
	sec, ok := k.secret[id]
	if !ok {
		return false
	}
	return hmac.Equal(Mac(sec, []byte("CM"), U64(h), content), sig)
}

// Share is a random-seed share: mac(secret, "RS", h, seed) || seed.
func (k *Keys) Share(id string, h uint64, seed []byte) []byte {
	m := Mac(k.secret[id], []byte("RS"), U64(h), seed)
	return append(append([]byte{}, m...), seed...)
}

func (k *Keys) VerifyShare(id string, h uint64, seed, share []byte) bool {
	sec, ok := k.secret[id]
	if !ok || len(share) < 32 {
		return false
	}
	return bytes.Equal(share[32:], seed) && hmac.Equal(Mac(sec, []byte("RS"), U64(h), seed), share[:32])
}

// MasterSeedSig is the aggregated (threshold) signature over the seed.
func (k *Keys) MasterSeedSig(h uint64, seed []byte) []byte {
	m := Mac(k.master, []byte("RS"), U64(h), seed)
	return append(append([]byte{}, m...), seed...)
}

func (k *Keys) VerifyMasterSeedSig(h uint64, seed, sig []byte) bool {
	if len(sig) < 32 {
		return false
	}
	return bytes.Equal(sig[32:], seed) && hmac.Equal(Mac(k.master, []byte("RS"), U64(h), seed), sig[:32])
}

// KM implements interfaces.KeyManager for one member.
type KM struct {
	K  *Keys
	Me string
	// AfterVerify (optional) runs after every VerifyConsensusMessage: a point inside a message handler at which the harness may
	// let the node's other goroutine act.
	AfterVerify func()
}

func (k *Keys) Signer(id string) *KM { return &KM{K: k, Me: id} }

func (m *KM) SignConsensusMessage(ctx context.Context, h primitives.BlockHeight, content []byte) primitives.Signature {
	return m.K.SignCM(m.Me, uint64(h), content)
}

func (m *KM) VerifyConsensusMessage(h primitives.BlockHeight, content []byte, sender *protocol.SenderSignature) error {
	if sender == nil {
		return errors.New("nil sender")
	}
	ok := m.K.VerifyCM(string(sender.MemberId()), uint64(h), content, sender.Signature())
	if m.AfterVerify != nil {
		m.AfterVerify()
	}
	if !ok {
		return errors.New("bad consensus message signature")
	}
	return nil
}

func (m *KM) SignRandomSeed(ctx context.Context, h primitives.BlockHeight, content []byte) primitives.RandomSeedSignature {
	return m.K.Share(m.Me, uint64(h), content)
}

func (m *KM) VerifyRandomSeed(h primitives.BlockHeight, content []byte, sender *protocol.SenderSignature) error {
	if sender == nil {
		return errors.New("nil sender")
	}
	if len(sender.MemberId()) == 0 { // master
		if !m.K.VerifyMasterSeedSig(uint64(h), content, sender.Signature()) {
			return errors.New("bad master random seed signature")
		}
		return nil
	}
	if !m.K.VerifyShare(string(sender.MemberId()), uint64(h), content, sender.Signature()) {
		return errors.New("bad random seed share")
	}
	return nil
}

// AggregateRandomSeed yields the master signature only from shares that all
// verify for one and the same seed; anything else yields a value that does not
// verify (as a real threshold scheme would).
func (m *KM) AggregateRandomSeed(h primitives.BlockHeight, shares []*protocol.SenderSignature) primitives.RandomSeedSignature {
	if len(shares) == 0 {
		return nil
	}
	var seed []byte
	for i, s := range shares {
		sig := s.Signature()
		if len(sig) < 32 {
			return []byte("bad-aggregate/short-share")
		}
		if i == 0 {
			seed = append([]byte{}, sig[32:]...)
		}
		if !m.K.VerifyShare(string(s.MemberId()), uint64(h), seed, sig) {
			return []byte("bad-aggregate/invalid-share")
		}
	}
	return m.K.MasterSeedSig(uint64(h), seed)
}
