// Package spi holds the consumer-side SPI fakes shared by every engine.
package spi

import (
	_ "github.com/anishathalye/porcupine"
	_ "github.com/orbs-network/lean-helix-go"
)
