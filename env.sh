# sourced by every script: offline Go environment
export GOFLAGS=-mod=mod GOPROXY=off GOSUMDB=off GOTOOLCHAIN=local
