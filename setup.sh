#!/bin/sh
# Build the verification framework offline from files on disk only.
set -e
cd "$(dirname "$0")"
. ./env.sh
mkdir -p .bin evidence replays
go build -tags verif -o .bin/check ./cmd/check
go build -race -tags verif -o .bin/check-race ./cmd/check
