module verif

go 1.21

require (
	github.com/anishathalye/porcupine v1.3.0
	github.com/orbs-network/govnr v0.2.0
	github.com/orbs-network/lean-helix-go v0.0.0
	github.com/orbs-network/scribe v0.1.0
	github.com/pkg/errors v0.8.1
	github.com/stretchr/testify v1.4.0
)

require (
	github.com/davecgh/go-spew v1.1.1 // indirect
	github.com/go-playground/ansi v2.1.0+incompatible // indirect
	github.com/orbs-network/gojay v1.3.0 // indirect
	github.com/orbs-network/membuffers v0.3.2 // indirect
	github.com/pmezard/go-difflib v1.0.0 // indirect
	gopkg.in/yaml.v2 v2.2.2 // indirect
)

replace github.com/orbs-network/lean-helix-go => /repo
