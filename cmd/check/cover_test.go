//go:build verif && covertest

package main

import (
	"os"
	"strings"
	"testing"

	"verif/harness"
)

// TestCover runs the checks named in COVER_IDS in-process so that `go test -coverpkg` can report which library code the
// workloads reach (a development aid, not a registered check).
func TestCover(t *testing.T) {
	for _, id := range strings.Fields(os.Getenv("COVER_IDS")) {
		if f, ok := registry[id]; ok {
			rc := f(harness.NewRun(id, nil))
			t.Logf("%s -> %d", id, rc)
		}
	}
}
