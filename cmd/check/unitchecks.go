package main

import (
	"fmt"

	"verif/harness"
	"verif/unit"
)

func init() {
	registry["C06"] = unit.CheckC06
	registry["C19"] = func(run *harness.Run) int {
		fs, ev := unit.CheckC19Unit(run)
		cov := map[string]interface{}{
			"evaluations":         ev["formula_evaluations"].(int) + ev["timer_scripts"].(int),
			"distinct_nontrivial": ev["formula_distinct_base_view"].(int) + ev["triggers_judged"].(int),
			"rule":                "formula: CalcTimeout for 8 bases (1ns..1h) x views 0..200, 2^k+-1, 2^64-2, 2^64-1 against min(base*2^v, MaxInt64) in math/big, positivity and monotonicity; component: random Register/Stop/read scripts on the real TimerBasedElectionTrigger with the harness as the only channel reader (at most one trigger per arming, exact pair, not before the timeout, handler invoked with its pair, armed un-superseded timer delivers, no timer goroutine left); distinct = (base, view) pairs plus triggers judged",
			"samples":             ev["unit_samples"],
		}
		for k, v := range ev {
			cov[k] = v
		}
		run.WriteEvidence("exploration", cov, []string{"math/big as arithmetic reference", "the one-sided bound 'not before the timeout' uses the wall clock (a loaded machine can only make a trigger later)", "non-delivery is judged after timeout + 10 s"}, len(fs))
		fmt.Printf("C19 %s: formula evals=%v scripts=%v triggers judged=%v\n", run.Tier, ev["formula_evaluations"], ev["timer_scripts"], ev["triggers_judged"])
		return run.Conclude(fs, nil)
	}
}

func init() {
	registry["C20"] = unit.CheckC20
}
