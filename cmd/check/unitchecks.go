package main

import (
	"fmt"

	"verif/harness"
	"verif/sim"
	"verif/unit"
)

func init() {
	// behavioural half of C06: the quorum test as the protocol applies it (cached thresholds, id lists built by callers) —
	// every COMMIT a correct node sends and every view it announces rests on a set the reference weighs at W-f or more
	unit.C06Extra = func(run *harness.Run) ([]harness.Finding, map[string]interface{}, []string) {
		p := advProfile(map[string]int{"barePP": 0, "equivocate": 10, "support": 30, "vcGames": 15, "mutate": 10}, 450, 2)(run.Thorough())
		p.MinN, p.MaxN = 4, 9
		fs, ev := sim.RunWorkloadFor(run, "C06", "c06", p, run.Pick(3000, 60000), []string{"C06 quorum decisions of the protocol judged", "commits"})
		var inc []string
		if j := ev["sim_events_judged"].(map[string]int); j["C06 quorum decisions of the protocol judged"] < 3000 {
			inc = append(inc, "floor missed: fewer than 3000 quorum decisions of the protocol judged")
		}
		return fs, ev, inc
	}
	registry["C06"] = unit.CheckC06
	registry["C19"] = func(run *harness.Run) int {
		fs, ev := unit.CheckC19Unit(run)
		rfs, rev, inc := rtPart(run, "stress", 24, 800, map[string]int{"C19 election actions judged": 300})
		fs = append(fs, rfs...)
		tfs, tev, tinc := rtPart(run, "timer", 8, 200, map[string]int{"C19 triggers judged": 150})
		fs = append(fs, tfs...)
		inc = append(inc, tinc...)
		ev["rt_timer"] = tev
		cfs, cev, cinc := rtPart(run, "ctx", 64, 3000, map[string]int{"C19 current triggers judged": 8})
		fs = append(fs, cfs...)
		inc = append(inc, cinc...)
		ev["rt_ctx"] = cev
		sfs, sev, sinc := rtPart(run, "commitsync", 32, 1200, map[string]int{"C05 triggers fired during the handling of a sync judged": 8})
		fs = append(fs, sfs...)
		inc = append(inc, sinc...)
		ev["rt_commitsync"] = sev
		for k, v := range rev {
			ev[k] = v
		}
		cov := map[string]interface{}{
			"evaluations":         ev["formula_evaluations"].(int) + ev["timer_scripts"].(int),
			"distinct_nontrivial": ev["formula_distinct_base_view"].(int) + ev["triggers_judged"].(int),
			"rule":                "formula: CalcTimeout for 8 bases (1ns..1h) x views 0..200, 2^k+-1, 2^64-2, 2^64-1 against min(base*2^v, MaxInt64) in math/big, positivity and monotonicity; component: random Register/Stop/read scripts on the real TimerBasedElectionTrigger with the harness as the only channel reader (at most one trigger per arming, exact pair, not before the timeout, handler invoked with its pair, armed un-superseded timer delivers, no timer goroutine left); distinct = (base, view) pairs plus triggers judged",
			"samples":             ev["unit_samples"],
		}
		for k, v := range ev {
			cov[k] = v
		}
		run.WriteEvidence("exploration", cov, []string{"math/big as arithmetic reference", "the one-sided bound 'not before the timeout' uses the wall clock (a loaded machine can only make a trigger later)", "non-delivery is judged after timeout + 10 s"}, len(fs))
		fmt.Printf("C19 %s: formula evals=%v scripts=%v triggers judged=%v; rt cases=%v election actions judged=%v\n", run.Tier, ev["formula_evaluations"], ev["timer_scripts"], ev["triggers_judged"], ev["rt_cases"], rev["rt_counters"].(map[string]int)["C19 election actions judged"])
		return run.Conclude(fs, inc)
	}
}

func init() {
	registry["C20"] = unit.CheckC20
}

func init() {
	registry["C15"] = func(run *harness.Run) int {
		fs, ev, inc := unit.CheckC15Registry(run)
		rfs, rev, rinc := rtPart(run, "ctx", 64, 3000, map[string]int{"C15 contexts captured": 20, "C15 leave stimuli judged": 20, "C15 construction-time parkings judged": 5})
		fs = append(fs, rfs...)
		inc = append(inc, rinc...)
		for k, v := range rev {
			ev[k] = v
		}
		// the commit callback's context: cancelled by a sync to a higher height and by shutdown, by nothing older
		cfs, cev, cinc := rtPart(run, "commitsync", 48, 2000, map[string]int{"C15 commit-callback contexts judged": 30})
		fs = append(fs, cfs...)
		inc = append(inc, cinc...)
		ev["rt_commitsync"] = cev
		// sim half: with the main-loop -> worker hand-off split in two steps, a COMMIT quorum that completes after the main loop has
		// accepted a sync above the height must not reach the commit callback (the registry refuses the superseded height's context)
		{
			p := advProfile(map[string]int{"barePP": 0, "support": 30, "vcGames": 10, "mutate": 10}, 500, 3)(run.Thorough())
			p.SplitHandoff, p.SyncPct, p.ReverseToLaggers = true, 8, true
			sfs2, sev2 := sim.RunWorkloadFor(run, "C15", "c15", p, run.Pick(2500, 50000), []string{"C15 commit-callback contexts judged at entry", "commits", "delivered inside a hand-off window"})
			fs = append(fs, sfs2...)
			ev["sim_split_handoff"] = sev2
			if j := sev2["sim_events_judged"].(map[string]int); j["C15 commit-callback contexts judged at entry"] < 2000 || j["delivered inside a hand-off window"] < 2000 {
				inc = append(inc, "floor missed: sim half judged too few commit callbacks / hand-off windows")
			}
		}
		// SPI calls parked on their context while syncs of every kind arrive; the committee contract reports cancellation
		// with the context's error or with one of its own
		sfs, sev, sinc := rtPart(run, "sync", 64, 3000, map[string]int{"C14 releases judged": 100})
		fs = append(fs, sfs...)
		inc = append(inc, sinc...)
		ev["rt_sync"] = sev
		cov := map[string]interface{}{
			"evaluations":         ev["registry_sequences_exhaustive"].(int) + ev["concurrent_histories"].(int),
			"distinct_nontrivial": ev["registry_sequences_with_issue_and_cancel"].(int),
			"rule":                "registry laws: every sequence of For / CancelOlderThan / Shutdown up to the stated length over heights {1,2,3} x views {0,1,MaxUint64} on the real state.ViewContexts next to a reference model, checked after every step (For fails iff shut down or below the cancel mark; same context for a live position; cancelled iff a later CancelOlderThan was above it or Shutdown; nothing at or above the mark touched); 3-client concurrent histories of the same operations plus Err() observations checked for linearizability with porcupine; non-trivial = a context was both issued and cancelled in the sequence",
			"samples":             ev["registry_samples"],
			"exhaustive":          true,
		}
		for k, v := range ev {
			cov[k] = v
		}
		run.WriteEvidence("exploration", cov, []string{"porcupine v1.3.0 as linearizability checker", "context identity is pointer identity"}, len(fs))
		fmt.Printf("C15 %s: sequences=%v histories=%v linearizable=%v\n", run.Tier, ev["registry_sequences_exhaustive"], ev["concurrent_histories"], ev["concurrent_histories_linearizable"])
		return run.Conclude(fs, inc)
	}
}

func init() {
	unit.C02Extra = func(run *harness.Run) ([]harness.Finding, map[string]interface{}, []string) {
		fs, ev, inc := rtPart(run, "validate", 32, 1200, map[string]int{"C02 concurrent validations judged": 5000, "C02 validations that started while another one was running": 1000})
		// ... and next to a live worker: certificates of a running network validated through the API of running nodes
		fs2, ev2, inc2 := rtPart(run, "stress", 16, 600, map[string]int{"C03 committed pairs validated through the API of a running node": 300})
		ev["rt_stress"] = ev2
		return append(fs, fs2...), ev, append(inc, inc2...)
	}
	registry["C02"] = unit.CheckC02
}
