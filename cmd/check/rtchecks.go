package main

import (
	"bufio"
	"encoding/json"
	"fmt"
	"os"
	"os/exec"
	"path/filepath"
	"sort"
	"strconv"
	"strings"
	"sync"

	"verif/harness"
	"verif/rt"
	"verif/sim"
)

func init() {
	// hidden sub-command used by the rt checks: run cases in this (race-built) process
	if len(os.Args) >= 6 && os.Args[1] == "__rt" {
		seed, _ := strconv.ParseInt(os.Args[3], 10, 64)
		from, _ := strconv.Atoi(os.Args[4])
		to, _ := strconv.Atoi(os.Args[5])
		os.Exit(rt.ChildMain(os.Args[2], seed, from, to))
	}
}

type rtOutcome struct {
	results  []*rt.Result
	findings []harness.Finding
	inconcl  []string
	stats    map[string]int
	races    int
	raceDesc []string
	panics   int
	aborted  int
}

// runRT runs `cases` cases of a scenario in child processes of the race-built binary.
func runRT(run *harness.Run, scenario string, cases, perChild, parallel int) *rtOutcome {
	out := &rtOutcome{stats: map[string]int{}}
	dir := filepath.Join(harness.OutRoot(), "replays", run.Prop, "rt-"+scenario)
	os.RemoveAll(dir)
	os.MkdirAll(dir, 0o755)
	bin := filepath.Join(harness.Root, ".bin", "check-race"+os.Getenv("VERIF_BIN_SUFFIX"))
	if _, err := os.Stat(bin); err != nil {
		out.inconcl = append(out.inconcl, "race-built driver missing: "+bin)
		return out
	}
	type job struct{ from, to int }
	var jobs []job
	for f := 0; f < cases; f += perChild {
		t := f + perChild
		if t > cases {
			t = cases
		}
		jobs = append(jobs, job{f, t})
	}
	var mu sync.Mutex
	var wg sync.WaitGroup
	sem := make(chan struct{}, parallel)
	for _, j := range jobs {
		wg.Add(1)
		sem <- struct{}{}
		go func(j job) {
			defer wg.Done()
			defer func() { <-sem }()
			logf := filepath.Join(dir, fmt.Sprintf("child-%d-%d.log", j.from, j.to))
			racef := filepath.Join(dir, fmt.Sprintf("race-%d-%d", j.from, j.to))
			f, _ := os.Create(logf)
			// generous watchdog; QUIT makes the Go runtime dump all goroutines into the log
			secs := 120 + 40*(j.to-j.from)
			if scenario == "syncstorm" {
				secs = 240 + 150*(j.to-j.from) // tens of thousands of rounds per case, some children on a single processor
			}
			cmd := exec.Command("timeout", "-s", "QUIT", strconv.Itoa(secs), bin, "__rt", scenario, strconv.FormatInt(run.Seed, 10), strconv.Itoa(j.from), strconv.Itoa(j.to))
			cmd.Stdout, cmd.Stderr = f, f
			cmd.Env = append(os.Environ(), "GORACE=halt_on_error=0 log_path="+racef)
			// scheduling diversity: children alternate between all cores, 4, 2 and a single processor
			if gmp := []string{"", "4", "2", "1"}[(j.from/perChild)%4]; gmp != "" {
				cmd.Env = append(cmd.Env, "GOMAXPROCS="+gmp)
			}
			err := cmd.Run()
			f.Close()
			mu.Lock()
			defer mu.Unlock()
			done := false
			lastStart := ""
			if lf, e := os.Open(logf); e == nil {
				sc := bufio.NewScanner(lf)
				sc.Buffer(make([]byte, 1<<22), 1<<26)
				for sc.Scan() {
					line := sc.Text()
					switch {
					case strings.HasPrefix(line, "RT|"):
						var r rt.Result
						if json.Unmarshal([]byte(line[3:]), &r) == nil {
							out.results = append(out.results, &r)
						}
					case strings.HasPrefix(line, "RTSTART|"):
						lastStart = line
					case line == "RTDONE":
						done = true
					case strings.Contains(line, "recovered panic"):
						out.panics++
						out.findings = append(out.findings, harness.Finding{Prop: "C12", Rule: "panic-reached-the-supervising-loop", Detail: "a panic reached govnr's handler (recovered panic) during " + lastStart, Replay: logf})
					}
				}
				lf.Close()
			}
			if err != nil || !done {
				out.aborted++
				out.inconcl = append(out.inconcl, fmt.Sprintf("child %s cases %d..%d did not finish cleanly (%v), last case: %s, log: %s", scenario, j.from, j.to, err, lastStart, logf))
			}
			// race reports
			matches, _ := filepath.Glob(racef + ".*")
			for _, m := range matches {
				b, _ := os.ReadFile(m)
				for _, blk := range strings.Split(string(b), "==================") {
					if strings.Contains(blk, "WARNING: DATA RACE") {
						out.races++
						key := raceKey(blk)
						out.raceDesc = append(out.raceDesc, key)
						if raceInLibrary(blk) {
							out.findings = append(out.findings, harness.Finding{Prop: run.Prop, Rule: "data-race:" + key, Detail: "the race detector reported a data race on library state: " + key, Replay: m})
						} else {
							out.inconcl = append(out.inconcl, "data race inside the harness itself (monitor state not thread-safe): "+m)
						}
					}
				}
			}
		}(j)
	}
	wg.Wait()
	for _, r := range out.results {
		for k, v := range r.Stats {
			out.stats[k] += v
		}
		for _, v := range r.Viol {
			path := harness.ReplayPath(v.Prop, fmt.Sprintf("rt-%s-seed%d-case%d", scenario, run.Seed, r.Case))
			harness.WriteJSON(path, map[string]interface{}{"scenario": scenario, "verif_seed": run.Seed, "case": r.Case, "case_seed": r.Seed, "desc": r.Desc, "violations": r.Viol, "rerun": fmt.Sprintf(".bin/check-race __rt %s %d %d %d", scenario, run.Seed, r.Case, r.Case+1)})
			out.findings = append(out.findings, harness.Finding{Prop: v.Prop, Rule: v.Rule, Detail: v.Detail, Replay: path})
		}
	}
	return out
}

// raceKey: the outermost library function pair of a race report (line numbers stripped).
func raceKey(blk string) string {
	var fns []string
	for _, l := range strings.Split(blk, "\n") {
		l = strings.TrimSpace(l)
		if strings.Contains(l, "lean-helix-go") && strings.Contains(l, "(") && !strings.HasPrefix(l, "/") {
			if i := strings.Index(l, "("); i > 0 {
				l = l[:i]
			}
			if j := strings.LastIndex(l, "/"); j >= 0 {
				l = l[j+1:]
			}
			fns = append(fns, l)
		}
	}
	if len(fns) == 0 {
		return "no-library-frame"
	}
	uniq := map[string]bool{}
	var out []string
	for _, f := range fns {
		if !uniq[f] {
			uniq[f] = true
			out = append(out, f)
		}
	}
	sort.Strings(out)
	if len(out) > 4 {
		out = out[:4]
	}
	return strings.Join(out, "+")
}

func rtSamples(out *rtOutcome, k int) []interface{} {
	var s []interface{}
	for _, r := range out.results {
		if len(s) >= k {
			break
		}
		s = append(s, map[string]interface{}{"scenario": r.Scenario, "case": r.Case, "config": r.Desc, "heights_decided": r.Stats["heights decided"], "violations": len(r.Viol)})
	}
	return s
}

// rtPart runs rt scenarios for a property and returns findings (of any property; Conclude filters), evidence and inconclusive notes.
func rtPart(run *harness.Run, scenario string, quickCases, thoroughCases int, floors map[string]int) ([]harness.Finding, map[string]interface{}, []string) {
	cases := run.Pick(quickCases, thoroughCases)
	out := runRT(run, scenario, cases, 4, 8)
	perKey := map[string]int{}
	for _, r := range out.results {
		for k, v := range r.Stats {
			if v > 0 {
				perKey[k]++
			}
		}
	}
	ev := map[string]interface{}{
		"rt_scenario":         scenario,
		"rt_cases":            len(out.results),
		"rt_counters":         out.stats,
		"rt_race_reports":     out.races,
		"rt_race_report_keys": out.raceDesc,
		"rt_recovered_panics": out.panics,
		"rt_children_aborted": out.aborted,
		"rt_samples":          rtSamples(out, 3),
	}
	for k, v := range perKey {
		ev["rt_cases_with_"+k] = v
	}
	inc := out.inconcl
	for k, min := range floors {
		if out.stats[k] < min {
			inc = append(inc, fmt.Sprintf("floor missed: %q = %d < %d", k, out.stats[k], min))
		}
	}
	if n := out.stats["inconclusive: network made no progress in the clean phase"]; n > len(out.results)/4 {
		inc = append(inc, fmt.Sprintf("%d cases could not be judged for progress (network made no progress in the clean phase)", n))
	}
	return out.findings, ev, inc
}

func init() {
	rtOnly := func(prop, scenario string, q, t int, floors map[string]int, rule string, nontrivialKey string) {
		registry[prop] = func(run *harness.Run) int {
			fs, ev, inc := rtPart(run, scenario, q, t, floors)
			if prop == "C14" {
				for i := range fs { // a panic while the worker handles a sync leaves the node without a term
					if fs[i].Prop == "C12" && fs[i].Rule == "panic-reached-the-supervising-loop" {
						fs = append(fs, harness.Finding{Prop: "C14", Rule: "worker-panicked-while-handling-a-sync", Detail: fs[i].Detail, Replay: fs[i].Replay})
					}
				}
			}
			if prop == "C14" { // "UpdateState itself never blocks indefinitely while the loops run": also under a message flood
				f2, e2, i2 := rtPart(run, "flood", 4, 60, map[string]int{"C12 floods judged": 4})
				for i := range f2 {
					if f2[i].Prop == "C12" {
						f2[i].Prop, f2[i].Rule = "C14", "update-state-blocks:"+f2[i].Rule
					}
				}
				fs, inc = append(fs, f2...), append(inc, i2...)
				ev["rt_flood"] = e2
			}
			if prop == "C14" {
				// sim half: syncs of every height (also right after a failed commit callback of that very height) in executions with commit
				// failures and the split hand-off: the round entered by sync is never started as a first-leader round
				p := advProfile(map[string]int{"barePP": 0, "support": 25, "mutate": 10}, 500, 3)(run.Thorough())
				p.CommitFailures, p.SplitHandoff, p.SyncPct, p.HonestOnly = true, true, 10, false
				sfs, sev := sim.RunWorkloadFor(run, "C14", "c14", p, run.Pick(2500, 50000), []string{"C14 rounds entered by sync judged", "commits"})
				fs = append(fs, sfs...)
				ev["sim_syncs"] = sev
				if j := sev["sim_events_judged"].(map[string]int); j["C14 rounds entered by sync judged"] < 3000 {
					inc = append(inc, "floor missed: sim half judged fewer than 3000 rounds entered by sync")
				}
			}
			if prop == "C14" {
				// tens of thousands of back-to-back syncs from two callers next to junk traffic and state readers
				f4, e4, i4 := rtPart(run, "syncstorm", 4, 60, map[string]int{"C14 sync storms judged": 4})
				fs, inc = append(fs, f4...), append(inc, i4...)
				ev["rt_syncstorm"] = e4
			}
			if prop == "C14" || prop == "C16" {
				// a node following a scripted committee: syncs arriving while its commit callback runs (C14), shutdown while the
				// transport is slow inside the send of its COMMIT (C16)
				floors := map[string]int{"C14 syncs pending while the commit callback runs": 40, "C14 stale batches judged": 20, "C14 stale syncs to an idle node judged": 3}
				if prop == "C16" {
					floors = map[string]int{"C16 shutdowns with a held COMMIT send": 8, "C16 shutdowns while the commit callback waits on its context": 4}
				}
				f3, e3, i3 := rtPart(run, "commitsync", 48, 2000, floors)
				fs, inc = append(fs, f3...), append(inc, i3...)
				ev["rt_commitsync"] = e3
			}
			counters := ev["rt_counters"].(map[string]int)
			cov := map[string]interface{}{
				"evaluations":         counters[nontrivialKey],
				"distinct_nontrivial": ev["rt_cases_with_"+nontrivialKey],
				"rule":                rule,
				"samples":             ev["rt_samples"],
			}
			for k, v := range ev {
				cov[k] = v
			}
			n := 0
			for _, f := range fs {
				if f.Prop == prop {
					n++
				}
			}
			run.WriteEvidence("exploration", cov, []string{"real MainLoop/WorkerLoop/timer goroutines in child processes built with -race", "wall clock is used only for watchdogs (20 s) whose firing is reported with the goroutine evidence", "HMAC key manager"}, n)
			fmt.Printf("%s %s: rt cases=%v counters=%v races=%v\n", prop, run.Tier, ev["rt_cases"], counters, ev["rt_race_reports"])
			return run.Conclude(fs, inc)
		}
	}
	rtOnly("C16", "stress", 40, 1500, map[string]int{"C16 shutdowns judged": 100},
		"live networks of 4..5 real nodes (loss, duplication, delay, 2..4 ms real election timers, commit failures, node-sync bursts, log-keyed delays at the hand-off points) cancelled at an arbitrary moment of the run: WaitUntilShutdown returns (20 s watchdog with goroutine evidence), API calls with the cancelled context return, nothing is sent / called back afterwards, no library goroutine is left (covers an election timer left armed); evaluations = node shutdowns judged; distinct_nontrivial = distinct randomized runs (PRNG-determined configuration and timing) in which a shutdown was judged",
		"C16 shutdowns judged")
	rtOnly("C14", "sync", 96, 4000, map[string]int{"C14 batches judged": 300, "C14 UpdateState calls": 600, "C14 rounds entered by sync": 100},
		"one real node (main loop + worker, leader of view 0) given sequences of UpdateState heights: stale, equal, newer, bursts of 2..6 back-to-back (increasing / repeated / decreasing) while RequestNewBlockProposal / RequestOrderedCommittee park until their context is cancelled and dawdle before returning, log-keyed delays between 'cancel contexts' and 'forward'; judged after 64 witnessed worker iterations with nothing else to do: the newest eligible sync took effect, stale syncs changed nothing, no PREPREPARE(view 0) / proposal request for a round entered by sync, UpdateState returns; evaluations = batches judged; distinct_nontrivial = distinct randomized cases with at least one judged batch",
		"C14 batches judged")
}

// raceInLibrary: at least one of the two racing accesses is made by library code (the innermost
// non-runtime frame of the access stack is in lean-helix-go).
func raceInLibrary(blk string) bool {
	lines := strings.Split(blk, "\n")
	for i, l := range lines {
		t := strings.TrimSpace(l)
		if strings.HasPrefix(t, "Write at") || strings.HasPrefix(t, "Read at") || strings.HasPrefix(t, "Previous write at") || strings.HasPrefix(t, "Previous read at") || strings.HasPrefix(t, "Atomic") || strings.HasPrefix(t, "Previous atomic") {
			for j := i + 1; j < len(lines); j++ {
				f := strings.TrimSpace(lines[j])
				if f == "" {
					break
				}
				if strings.HasPrefix(f, "/") || strings.HasPrefix(f, "<autogenerated>") {
					continue // file:line
				}
				if strings.HasPrefix(f, "runtime.") || strings.HasPrefix(f, "sync.") || strings.HasPrefix(f, "sync/atomic.") || strings.HasPrefix(f, "internal/") {
					continue
				}
				if strings.Contains(f, "github.com/orbs-network/lean-helix-go") {
					return true
				}
				break
			}
		}
	}
	return false
}
