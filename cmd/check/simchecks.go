package main

import (
	"fmt"
	"time"

	"verif/harness"
	"verif/sim"
	"verif/unit"
)

var simAssumptions = []string{
	"HMAC key manager stands in for real signatures (a party can sign only with keys it owns; replay is possible)",
	"correct nodes are real WorkerLoops driven synchronously through the verif hooks; the sim mimics MainLoop's context cancellation on election / sync",
	"Byzantine weight <= f at every height by construction of the case (re-asserted)",
	"generated membuffers readers are trusted to read fields",
}

func advProfile(weights map[string]int, steps int, maxh uint64) func(bool) *sim.Profile {
	return func(thorough bool) *sim.Profile {
		p := &sim.Profile{Adversary: true, MaxSteps: steps, MaxH: maxh, MinN: 4, MaxN: 7, AdvWeights: weights}
		if thorough {
			p.MaxN = 10
			p.MaxSteps = steps * 3 / 2
		}
		return p
	}
}

func init() {
	// barePP is the recorded known finding of C07 (a standalone PREPREPARE is accepted in a view above 0);
	// the other properties' workloads leave it out so that any fork they see is a new one.
	noBare := map[string]int{"barePP": 0}
	reg := func(sc *sim.SimCheck) {
		sc.Assumptions = simAssumptions
		registry[sc.Prop] = func(run *harness.Run) int { return sim.RunSimCheck(run, sc) }
	}
	reg(&sim.SimCheck{Prop: "C01", Workload: "c01", Profile: withOpts(advProfile(merge(noBare, map[string]int{"equivocate": 12, "support": 25, "forgedNV": 12, "twistedNV": 12, "reblock": 25, "vcGames": 16, "viewFlood": 5}), 500, 2), func(p *sim.Profile) { p.CommErrors, p.CommitFailures = true, true }),
		QuickCases: 10000, ThoroughCases: 150000,
		NonTrivial: func(r *sim.Result) bool { return r.Forky && r.Commits > 0 },
		Rule:       "random adversarial case (committee, weights, leader order, Byzantine set <= f, schedule, attack strategies) from (VERIF_SEED, workload, index); non-trivial = at least two different proposals were on the wire at one height and some correct node committed; distinct = distinct schedule hash",
		Floors:     map[string]int{"commits": 1000, "C01 agreeing commits": 500},
		Judged:     []string{"commits", "C01 agreeing commits"},
		Extra:      scriptedBare("C01")})
	// (standalone PREPREPAREs above view 0 are part of this workload: whatever a node commits after adopting one must still be a
	// pair its peers accept — the recorded C07 finding may fork the chain, it must not produce a block under another block's certificate)
	reg(&sim.SimCheck{Prop: "C03", Workload: "c03", Profile: advProfile(map[string]int{"outsider": 15, "mutate": 35, "twistedNV": 12, "support": 20, "barePP": 10, "equivocate": 6}, 500, 2),
		QuickCases: 5000, ThoroughCases: 120000,
		NonTrivial: func(r *sim.Result) bool {
			return r.Stats["C03 commits validated on a peer"] > 0 && r.Stats["delivered adversarial"] > 0
		},
		Rule:   "as C01; every commit callback's (block, proof) is re-validated with strict ValidateBlockConsensus on another correct node and by the reference certificate predicate; non-trivial = a commit was judged in a case where adversarial messages were delivered",
		Floors: map[string]int{"C03 commits validated on a peer": 1000},
		Judged: []string{"C03 commits validated on a peer"},
		Extra: func(run *harness.Run) ([]harness.Finding, map[string]interface{}, []string) {
			// real runtime: the committed pairs of a live network validated (strict) through the API of running nodes, on the
			// consumer's goroutine, while those nodes take part in consensus
			fs, ev, inc := rtPart(run, "stress", 24, 800, map[string]int{"C03 committed pairs validated through the API of a running node": 500})
			return fs, map[string]interface{}{"rt_stress": ev}, inc
		}})
	reg(&sim.SimCheck{Prop: "C04", Workload: "c04", Profile: withOpts(advProfile(merge(map[string]int{"barePP": 5}, map[string]int{"badBlock": 25, "twistedNV": 20, "support": 25, "forgedNV": 8, "equivocate": 10, "crossInstance": 14, "reblock": 30, "vcGames": 28}), 500, 2), func(p *sim.Profile) {
		p.SplitPct = 30 // proposals also meet a node whose election trigger sits between its main loop and its worker
	}),
		QuickCases: 8000, ThoroughCases: 120000,
		NonTrivial: func(r *sim.Result) bool { return r.Stats["C04 commits judged"] > 0 && r.Stats["adv badBlock"] > 0 },
		Rule:       "as C01 with Byzantine leaders proposing blocks every correct validator rejects (view 0, inside NEW_VIEWs) and per-node consumer rejections; non-trivial = a commit was judged in a case where a bad block had been proposed",
		Floors:     map[string]int{"C04 commits judged": 1000, "adv badBlock": 500},
		Judged:     []string{"C04 commits judged", "C04 votes for standalone proposals judged"}})
	reg(&sim.SimCheck{Prop: "C07", Workload: "c07", Profile: withOpts(advProfile(map[string]int{"forgedNV": 20, "twistedNV": 20, "barePP": 8, "mutate": 30, "crossInstance": 12, "vcGames": 14}, 450, 2), func(p *sim.Profile) {
		p.MinN = 5
		p.SplitPct = 40 // in these cases the main loop may handle the expiry of the election timer while the worker is in the middle of a handler
	}),
		QuickCases: 5000, ThoroughCases: 100000,
		NonTrivial: func(r *sim.Result) bool { return r.Stats["C07 prepares judged"]+r.Stats["C07 adoptions judged"] > 0 },
		Rule:       "adversarial cases rich in forged / twisted NEW_VIEWs and bare PREPREPAREs; every PREPARE sent and every proposal stored by a correct node in a view above 0 is judged against the reference NEW_VIEW validator; non-trivial = at least one such act was judged",
		Floors:     map[string]int{"C07 prepares judged": 500, "C07 leader proposals judged": 200, "adv forgedNV": 1000},
		Judged:     []string{"C07 prepares judged", "C07 adoptions judged", "C07 leader proposals judged", "C07 leader proposals with a certified block judged"},
		Extra: func(run *harness.Run) ([]harness.Finding, map[string]interface{}, []string) {
			fs, ev, inc := scriptedBare("C07")(run)
			// real runtime: the validation of a NEW_VIEW's fresh block is overtaken by the node's own election trigger or a sync;
			// a validation that ended under the cancelled context must not lead to the proposal being adopted
			rfs, rev, rinc := rtPart(run, "ctx", 64, 3000, map[string]int{"C07 cancelled validations judged": 10})
			ev["rt_ctx"] = rev
			return append(fs, rfs...), ev, append(inc, rinc...)
		}})
	reg(&sim.SimCheck{Prop: "C08", Workload: "c08", Profile: withOpts(advProfile(merge(map[string]int{"barePP": 5}, map[string]int{"mutate": 60, "outsider": 15, "vcGames": 12, "hugeView": 8, "twistedNV": 8, "support": 10}), 400, 3), func(p *sim.Profile) {
		// a third of the cases with the main-loop -> worker hand-off split in two steps and more node syncs: messages then also
		// meet a node between two heights (committees differ between heights)
		p.SplitPct, p.SyncPct, p.ReverseToLaggers = 35, 4, true
		p.ProoflessSyncs = true // one node sometimes enters a height without the previous block's proof: no share of the others fits its seed
	}),
		QuickCases: 5000, ThoroughCases: 100000,
		NonTrivial: func(r *sim.Result) bool {
			return r.Stats["C08 must-ignore deliveries"] > 0 && r.Stats["delivered adversarial"] > 0
		},
		Rule:   "adversarial cases rich in field-by-field mutations of wire messages, outsiders and vote games; every Store* call is judged for authenticity and every delivery the reference says must be ignored is checked for effects; non-trivial = adversarial must-ignore deliveries were judged",
		Floors: map[string]int{"C08 stores judged": 20000, "C08 must-ignore deliveries": 20000, "adv mutate": 5000},
		Judged: []string{"C08 stores judged", "C08 deliveries judged", "C08 must-ignore deliveries"},
		Extra: func(run *harness.Run) ([]harness.Finding, map[string]interface{}, []string) {
			// on the real runtime: a COMMIT must be handled by the term of its own height (seed-identified), also while syncs
			// overtake a round that is being set up
			fs, ev, inc := rtPart(run, "stress", 32, 1200, map[string]int{"C17 commits judged for the term that handled them": 3000})
			cfs, cev, cinc := rtPart(run, "commitsync", 32, 1200, map[string]int{"C17 rounds overtaken by a sync while being set up": 15})
			return append(fs, cfs...), map[string]interface{}{"rt_stress": ev, "rt_commitsync": cev}, append(inc, cinc...)
		}})
	reg(&sim.SimCheck{Prop: "C09", Workload: "c09", Profile: withOpts(advProfile(merge(map[string]int{"barePP": 5}, map[string]int{"vcGames": 25, "support": 20, "equivocate": 8, "viewFlood": 4}), 600, 2), func(p *sim.Profile) { p.CommErrors, p.CommitFailures = true, true }),
		QuickCases: 5000, ThoroughCases: 100000,
		NonTrivial: func(r *sim.Result) bool {
			return r.Stats["C09 locked view changes judged"] > 0 || r.Stats["C09 new views re-proposing a lock"] > 0
		},
		Rule:   "adversarial and honest cases with many timeouts; every VIEW_CHANGE a correct node sends after having been prepared and every NEW_VIEW a correct leader sends is judged against its own input history; non-trivial = a locked VIEW_CHANGE or a lock-re-proposing NEW_VIEW was judged",
		Floors: map[string]int{"C09 locked view changes judged": 2000, "C09 new views judged": 1000, "C09 new views re-proposing a lock": 200},
		Judged: []string{"C09 locked view changes judged", "C09 new views judged", "C09 new views re-proposing a lock"},
		Extra:  farViews("C09", 9)})
	reg(&sim.SimCheck{Prop: "C10", Workload: "c10", Profile: withOpts(advProfile(merge(map[string]int{"barePP": 5}, map[string]int{"equivocate": 20, "support": 25, "mutate": 20, "viewFlood": 3}), 600, 3), func(p *sim.Profile) {
		// (in a third of the cases the consumers' validators do not object to a proposal without a block)
		p.CommErrors, p.CommitFailures, p.LenientValidators = true, true, true
	}),
		QuickCases: 5000, ThoroughCases: 100000,
		NonTrivial: func(r *sim.Result) bool { return r.Forky && r.Stats["C10 commits judged"] > 0 },
		Rule:       "adversarial cases with conflicting proposals, duplicated and re-ordered deliveries; every message a correct node sends is judged (single-valued signatures per (h,v), phase order, view order); non-trivial = conflicting proposals were on the wire and a COMMIT of a correct node was judged",
		Floors:     map[string]int{"C10 commits judged": 2000, "C10 prepares judged": 4000, "C10 view changes judged": 4000},
		Judged:     []string{"C10 proposals judged", "C10 prepares judged", "C10 commits judged", "C10 view changes judged", "C10 commits by commit quorum"}})
	reg(&sim.SimCheck{Prop: "C11", Workload: "c11", Profile: withOpts(advProfile(merge(map[string]int{"barePP": 5}, map[string]int{"vcGames": 25, "outsider": 12, "support": 20, "mutate": 20, "hugeView": 6, "viewFlood": 5}), 600, 2), func(p *sim.Profile) { p.CommitteeErrors, p.CommitFailures = true, true }),
		QuickCases: 5000, ThoroughCases: 100000,
		NonTrivial: func(r *sim.Result) bool {
			return r.Stats["C11 judged NEW_VIEW"] > 0 && r.Stats["delivered adversarial"] > 0
		},
		Rule:   "adversarial cases aimed at poisoning what correct nodes later emit; every delivery of a correct node's NEW_VIEW / VIEW_CHANGE / PREPARE / COMMIT to a correct peer that meets the stated precondition is judged for acceptance; non-trivial = a NEW_VIEW delivery was judged in a case with adversarial deliveries",
		Floors: map[string]int{"C11 judged NEW_VIEW": 1000, "C11 judged VIEW_CHANGE": 3000, "C11 judged PREPARE": 3000, "C11 judged COMMIT": 3000},
		Judged: []string{"C11 judged NEW_VIEW", "C11 judged VIEW_CHANGE", "C11 judged PREPARE", "C11 judged COMMIT", "C11 NV precondition unmet", "C11 VC precondition unmet", "C11 P precondition unmet"},
		Extra: func(run *harness.Run) ([]harness.Finding, map[string]interface{}, []string) {
			// real runtime: a leader whose proposal request is cancelled (and returns no block) must not announce the view
			fs, ev, inc := rtPart(run, "ctx", 64, 3000, map[string]int{"C15 leave stimuli judged": 20})
			return fs, map[string]interface{}{"rt_ctx": ev}, inc
		}})
	reg(&sim.SimCheck{Prop: "C05", Workload: "c05", Profile: func(th bool) *sim.Profile {
		p := advProfile(merge(noBare, map[string]int{"vcGames": 25, "support": 15, "outsider": 8, "hugeView": 6, "garbage": 4, "mutate": 20}), 300, 2)(th)
		p.Tail = true
		p.NoRejects = true  // the property is about proposals the consumer accepts
		p.CommErrors = true // the transport reports an error for sends that did go out (e.g. one crashed recipient): no ground for losing liveness
		return p
	},
		QuickCases: 4000, ThoroughCases: 80000,
		NonTrivial: func(r *sim.Result) bool { return r.Stats["C05 tails starting above view 0"] > 0 },
		Rule:       "random adversarial prefix (as C01, 300 steps, partitions, starvation, drops) then a stabilised tail: laggards synced, every in-flight message delivered before the next virtual timer (base*2^view) expires, timers in virtual-time order, adversary still active. Judged: (a) a correct node commits the height before any correct node's view exceeds vmax+2n+2; (b) if the committing view's proposal was emitted after stabilisation every correct node that stored it commits it. non-trivial = the tail started from a state above view 0",
		Floors:     map[string]int{"C05 tails judged": 1500, "C05 tails with commit": 1500, "C05 completeness judged": 300, "C05 tails starting above view 0": 500, "C05 own-commit broadcasts judged": 5000},
		Judged:     []string{"C05 tails judged", "C05 tails with commit", "C05 completeness judged", "C05 tails starting above view 0", "C05 completeness not judged: committing view's proposal predates stabilisation", "C05 not judged: every explored height already decided"},
		Extra: func(run *harness.Run) ([]harness.Finding, map[string]interface{}, []string) {
			r := sim.ScriptHeavyMember()
			fs := sim.ScriptedFindings("C05", "heavy-member", r)
			ev := map[string]interface{}{"scripted_known_finding_scenario": "weights 1,7,1,1 with the three light members Byzantine and silent: the correct member holds quorum weight alone", "scripted_steps": r.Steps}
			// the timeout -> VIEW_CHANGE step also depends on the main-loop -> worker hand-off of the election trigger, which the
			// synchronous sim cannot see: the rt "ctx" scenario offers the trigger of the current pair while a stale one sits in the
			// worker's one-slot inbox; a lost trigger means the member never votes again
			rfs, rev, inc := rtPart(run, "ctx", 48, 2000, map[string]int{"C19 current triggers judged": 6})
			for _, f := range rfs {
				if f.Prop == "C19" && f.Rule == "current-trigger-not-acted-upon" {
					f.Prop, f.Rule = "C05", "election-trigger-lost-in-hand-off"
					fs = append(fs, f)
				}
			}
			ev["rt_ctx"] = rev
			// ... and the trigger of the round a sync starts, fired while the worker is still handling that sync
			cfs, cev, cinc := rtPart(run, "commitsync", 32, 1200, map[string]int{"C05 triggers fired during the handling of a sync judged": 8})
			fs = append(fs, cfs...)
			ev["rt_commitsync"] = cev
			return fs, ev, append(inc, cinc...)
		}})
	reg(&sim.SimCheck{Prop: "C12", Workload: "c12", Profile: func(th bool) *sim.Profile {
		p := advProfile(merge(noBare, map[string]int{"garbage": 30, "hugeView": 20, "mutate": 50, "vcGames": 10, "crossInstance": 6, "support": 10, "badBlock": 6, "corruptNested": 25, "wrapLen": 12, "viewFlood": 4}), 350, 2)(th)
		p.Tail, p.TailQuiet, p.TailProp, p.NoRejects = true, true, "C12", true
		p.LenientValidators = true
		p.CommErrors = true
		p.NilBlocks = true // a correct leader whose factory has nothing to propose (no block, live context): the round must survive it
		return p
	},
		QuickCases: 4000, ThoroughCases: 80000,
		NonTrivial: func(r *sim.Result) bool {
			return r.Stats["adv garbage"]+r.Stats["adv hugeView"]+r.Stats["adv mutate"] > 5 && r.Stats["C05 tails judged"] > 0
		},
		Rule:   "sim: hostile prefix (random / truncated / bit-flipped / length-corrupted bytes, extreme views and heights, empty ids and proofs, missing blocks, field mutations, replays) delivered at PRNG-chosen points to real worker loops; a panic escaping the worker, or recovered by it while handling a message the reference decoder reads completely, is a violation; then a quiet stabilised tail in which the attacked nodes must commit (bounded progress). rt: the same kinds of input through HandleConsensusMessage / ValidateBlockConsensus / GetMemberIdsFromBlockProof of a running node (race detector on): no panic reaches the supervising loops, the victim keeps committing. non-trivial (sim) = more than 5 hostile inputs and a judged tail",
		Floors: map[string]int{"adv garbage": 5000, "adv hugeView": 3000, "adv mutate": 10000, "C05 tails judged": 1500, "C05 tails with commit": 1500},
		Judged: []string{"adv garbage", "adv hugeView", "adv mutate", "adv wrapLen", "delivered adversarial", "C05 tails judged", "C05 tails with commit", "C12 malformed messages dropped after a parser panic", "C12 storage probes after a recovered panic", "block factory returned no block under a live context"},
		Extra: func(run *harness.Run) ([]harness.Finding, map[string]interface{}, []string) {
			fs, ev, inc := rtPart(run, "hostile", 32, 1200, map[string]int{"C12 hostile inputs": 2000, "C12 victims judged for progress": 16})
			// differential script: valid traffic with malformed messages inserted, also in front of the cached valid ones
			cviol, cst, ctrace := sim.ScriptMalformedAmongValid(run.Seed*15485863+12, run.Pick(300, 8000))
			for i, v := range cviol {
				if i >= 3 {
					break
				}
				path := harness.ReplayPath("C12", fmt.Sprintf("malformed-among-valid-%d", i+1))
				harness.WriteJSON(path, map[string]interface{}{"property": "C12", "rule": v.Rule, "detail": v.Detail, "trace": ctrace})
				fs = append(fs, harness.Finding{Prop: "C12", Rule: v.Rule, Detail: v.Detail, Replay: path})
			}
			ev["malformed_among_valid_script"] = cst
			if len(cviol) == 0 && (cst.CommitsInControl < cst.Worlds || cst.MalformedAheadOfValidCache == 0) {
				inc = append(inc, "malformed-among-valid script: the control copy did not commit both heights in every world")
			}
			fs2, ev2, inc2 := rtPart(run, "flood", 4, 60, map[string]int{"C12 floods judged": 4})
			ev["rt_flood"] = ev2
			// node syncs with the extreme height 2^64-1 through the public API, then a sync that must still take effect
			fs3, ev3, inc3 := rtPart(run, "commitsync", 32, 1200, map[string]int{"C12 syncs judged after an extreme-height sync": 12})
			ev["rt_commitsync"] = ev3
			// extreme view values carried by valid messages, election timeouts up to and including the one of view 2^64-1
			fs4, ev4, inc4 := farViews("C12", 12)(run)
			for k, v := range ev4 {
				ev[k] = v
			}
			// thousands of well-formed messages for heights the node then jumps over by node sync: the future cache must keep working
			fs5, ev5 := unit.C17LagEpisodesFor(run, "C12", "future-cache-disabled-after-many-discarded-messages")
			ev["lag_and_sync_episodes"] = ev5
			fs4 = append(fs4, fs5...)
			return append(append(append(fs, fs2...), fs3...), fs4...), ev, append(append(append(inc, inc2...), inc3...), inc4...)
		}})
	reg(&sim.SimCheck{Prop: "C13", Workload: "c13", Profile: func(th bool) *sim.Profile {
		p := advProfile(merge(noBare, map[string]int{"support": 20, "mutate": 15, "badBlock": 14, "vcGames": 14, "twistedNV": 10}), 500, 3)(th)
		p.CommitFailures, p.SplitHandoff, p.ReverseToLaggers = true, true, true
		return p
	},
		QuickCases: 3000, ThoroughCases: 60000,
		NonTrivial: func(r *sim.Result) bool { return r.Stats["C13 rounds"] > 4 && r.Commits > 0 },
		Rule:       "sim: every message order (random adversarial schedules over 3 heights with node syncs to older / equal / newer heights and commit-callback failures): commit-callback heights and new-round-callback heights strictly increasing per node, rounds only above committed heights, sampled (height, view) lexicographically non-decreasing after every step. rt: the same oracles on the real two-goroutine runtime (race detector on) under loss / duplication / delay, 2..4 ms real election timers, commit failures, UpdateState bursts and log-keyed delays around SetHeightAndResetView / Dispose / cache consumption, with a sampler goroutine per node. non-trivial (sim) = more than 4 rounds and a commit in the case",
		Floors:     map[string]int{"C13 rounds": 10000, "C13 samples": 500000, "commits": 3000},
		Judged:     []string{"C13 rounds", "C13 samples", "C13 samples taken inside SPI calls", "commits"},
		Extra: func(run *harness.Run) ([]harness.Finding, map[string]interface{}, []string) {
			fs, ev, inc := rtPart(run, "stress", 40, 1500, map[string]int{"C13 commit callbacks judged": 1000, "C13 round callbacks judged": 1000, "C13 state samples": 50000})
			// views that do not fit 63 bits, the last view 2^64-1 and the election timeout fired in it
			fs2, ev2, inc2 := farViews("C13", 13)(run)
			for k, v := range ev2 {
				ev[k] = v
			}
			// scripted commits with a parked commit callback and node syncs in that window: callback heights strictly increasing
			fs3, ev3, inc3 := rtPart(run, "commitsync", 32, 1200, map[string]int{"C13 commit callbacks judged": 100, "C13 round callbacks judged": 150})
			ev["rt_commitsync"] = ev3
			return append(append(fs, fs2...), fs3...), ev, append(append(inc, inc2...), inc3...)
		}})
	reg(&sim.SimCheck{Prop: "C17", Workload: "c17", Profile: func(th bool) *sim.Profile {
		p := advProfile(merge(noBare, map[string]int{"support": 25, "crossInstance": 12, "mutate": 15, "corruptNested": 4}), 600, 3)(th)
		p.SplitHandoff, p.SyncPct, p.MinN, p.ReverseToLaggers = true, 6, 5, true
		return p
	},
		QuickCases: 3000, ThoroughCases: 60000,
		NonTrivial: func(r *sim.Result) bool { return r.Stats["C17 handled messages judged"] > 20 && r.Commits > 0 },
		Rule:       "(a) filter level: operation sequences on the real RawMessageFilter + State with recording per-term handlers (see the filter_* keys); (b) worker level, in sim executions over 3 heights with node syncs, the main-loop -> worker hand-off of syncs and election triggers split into two steps (so a newer sync's context cancellation can overtake an older round start), members that sit out the committee of later heights, support / other-instance traffic sent into lagging nodes' future cache: every message that reaches the protocol logic (a Store* call) must be of the height of the installed term and of a committee the node is a member of, and the observable height must be the installed term's height after every step. non-trivial (b) = more than 20 handled messages judged and a commit",
		Floors:     map[string]int{"C17 handled messages judged": 100000, "commits": 1200},
		Judged:     []string{"C17 handled messages judged", "C17 cached messages of correct members judged at the start of their height", "commits", "C13 rounds"},
		Extra: func(run *harness.Run) ([]harness.Finding, map[string]interface{}, []string) {
			fs, cov, inc := unit.CheckC17Unit(run)
			ev := map[string]interface{}{}
			for k, v := range cov {
				ev["filter_"+k] = v
			}
			// (c) on the real runtime: the random seed each COMMIT share is verified against identifies the term that handles it
			rfs, rev, rinc := rtPart(run, "stress", 32, 1200, map[string]int{"C17 commits judged for the term that handled them": 3000})
			ev["rt_stress"] = rev
			// ... and with a scripted committee: a sync overtakes the round that is being set up after a commit while that
			// round's COMMITs are already queued
			cfs, cev, cinc := rtPart(run, "commitsync", 32, 1200, map[string]int{"C17 rounds overtaken by a sync while being set up": 15})
			ev["rt_commitsync"] = cev
			return append(append(fs, rfs...), cfs...), ev, append(append(inc, rinc...), cinc...)
		}})
	reg(&sim.SimCheck{Prop: "C18", Workload: "c18", Profile: withOpts(advProfile(merge(noBare, map[string]int{"hugeView": 10, "vcGames": 15}), 500, 2), func(p *sim.Profile) { p.CommErrors = true }),
		QuickCases: 1500, ThoroughCases: 40000,
		NonTrivial: func(r *sim.Result) bool { return r.Stats["C18 view change destinations judged"] > 3 },
		Rule:       "(a) the real leader function tabulated next to committee[view mod n] for n=4..64 and views 0..4n, 2^k, 2^k+-1, +-70 around 2^31, 2^32, 2^63, 2^64-1 and random 64-bit views, plus 'each member leads once in n consecutive views'; (b) behaviour in sim executions: every VIEW_CHANGE a correct node sends must go to the member at position view mod n and the member at that position must collect instead of sending, NEW_VIEWs only from that member; non-trivial case = more than 3 VIEW_CHANGE destinations judged",
		Floors:     map[string]int{"C18 view change destinations judged": 20000},
		Judged:     []string{"C18 view change destinations judged", "C18 role decisions judged for a view ahead of the receiver", "C18 proposer ids judged", "adv hugeView"},
		Extra: func(run *harness.Run) ([]harness.Finding, map[string]interface{}, []string) {
			fs, evals, distinct, samples := unit.CheckC18Table(run)
			ev := map[string]interface{}{"leader_table_evaluations": evals, "leader_table_distinct_(n,view-class,position)": len(distinct), "leader_table_samples": samples}
			// behaviour at far-away views: valid NEW_VIEWs / vote quorums carrying views around 2^20 .. 2^64-1
			viol, st, trace, _ := sim.ScriptHugeViews(run.Seed*7919+18, run.Pick(64, 1200), 120*time.Second)
			for i, v := range viol {
				if i >= 3 {
					break
				}
				path := harness.ReplayPath("C18", fmt.Sprintf("huge-view-%d", i+1))
				harness.WriteJSON(path, map[string]interface{}{"property": "C18", "rule": v.Rule, "detail": v.Detail, "trace": trace})
				fs = append(fs, harness.Finding{Prop: "C18", Rule: v.Rule, Detail: v.Detail, Replay: path})
			}
			ev["huge_view_worlds"] = st.Worlds
			ev["huge_view_new_views_adopted_from_member_at_view_mod_n"] = st.Adopted
			ev["huge_view_new_views_from_other_position_ignored"] = st.WrongSenderIgnored
			ev["huge_view_elections_of_the_node_at_its_own_position"] = st.Elected
			ev["huge_view_timeout_vote_destinations_judged"] = st.Destinations
			ev["huge_view_samples"] = st.Samples
			// the ordered-committee request fails a few times before it answers (200 ms of real time per retry: few worlds)
			rviol, rj, rd := sim.ScriptCommitteeRetries(run.Seed*31+18, run.Pick(3, 30))
			for i, v := range rviol {
				if i >= 2 {
					break
				}
				path := harness.ReplayPath("C18", fmt.Sprintf("committee-retries-%d", i+1))
				harness.WriteJSON(path, map[string]interface{}{"property": "C18", "rule": v.Rule, "detail": v.Detail})
				fs = append(fs, harness.Finding{Prop: "C18", Rule: v.Rule, Detail: v.Detail, Replay: path})
			}
			ev["committee_retry_worlds_judged"] = rj
			ev["committee_retry_vote_destinations_judged"] = rd
			fs3, ev3, inc := farViews("C18", 18)(run)
			fs = append(fs, fs3...)
			for k, v := range ev3 {
				ev[k] = v
			}
			if len(viol) == 0 && (st.Adopted == 0 || st.Elected == 0 || st.WrongSenderIgnored == 0 || st.Destinations == 0) {
				inc = append(inc, "huge-view script judged nothing in one of its classes")
			}
			return fs, ev, inc
		}})
}

// farViews runs the far-view script (sim/farviews.go) and reports the violations of one property.
func farViews(prop string, seedSalt int64) func(run *harness.Run) ([]harness.Finding, map[string]interface{}, []string) {
	return func(run *harness.Run) ([]harness.Finding, map[string]interface{}, []string) {
		limit := 120 * time.Second
		if prop == "C12" {
			limit = 30 * time.Second
		}
		viol, st, trace, done := sim.ScriptFarViews(run.Seed*104729+seedSalt, run.Pick(160, 4000), limit)
		var fs []harness.Finding
		for i, v := range sim.FilterViolations(prop, viol) {
			if i >= 3 {
				break
			}
			path := harness.ReplayPath(prop, fmt.Sprintf("far-view-%d", i+1))
			harness.WriteJSON(path, map[string]interface{}{"property": prop, "rule": v.Rule, "detail": v.Detail, "trace": trace})
			fs = append(fs, harness.Finding{Prop: prop, Rule: v.Rule, Detail: v.Detail, Replay: path})
		}
		ev := map[string]interface{}{"far_view_script": st}
		var inc []string
		if !done && len(fs) == 0 {
			inc = append(inc, "far-view script stopped early: "+st.HandlerStillRunningFor)
		}
		if len(fs) == 0 && (st.Elections == 0 || st.StraddlingLockChoices == 0 || st.Adoptions == 0 || st.LockedVotesJudged == 0 || st.TimeoutsAtTheLastView == 0) {
			inc = append(inc, "far-view script judged nothing in one of its classes")
		}
		return fs, ev, inc
	}
}

// scriptedBare reproduces the recorded bare-PREPREPARE finding (C07) and its fork (C01) deterministically.
func scriptedBare(prop string) func(run *harness.Run) ([]harness.Finding, map[string]interface{}, []string) {
	return func(run *harness.Run) ([]harness.Finding, map[string]interface{}, []string) {
		r := sim.ScriptBarePreprepareFork()
		return sim.ScriptedFindings(prop, "bare-preprepare-fork", r), map[string]interface{}{"scripted_known_finding_scenario": "4 equal members, Byzantine leader of view 1 sends a standalone PREPREPARE to two nodes that timed out of view 0 while prepared; they commit it although a third node committed the view-0 block", "scripted_steps": r.Steps}, nil
	}
}

func withOpts(f func(bool) *sim.Profile, opt func(p *sim.Profile)) func(bool) *sim.Profile {
	return func(th bool) *sim.Profile {
		p := f(th)
		opt(p)
		return p
	}
}

func merge(ms ...map[string]int) map[string]int {
	out := map[string]int{}
	for _, m := range ms {
		for k, v := range m {
			out[k] = v
		}
	}
	return out
}
