// check is the single driver of every registered check:
//
//	check <ID> [--tier quick|thorough] [--replay file]
//
// VERIF_SEED / VERIF_TIER are honoured. Exit 0 = held on everything explored,
// 1 = VIOLATION (line printed), 3 = INCONCLUSIVE.
package main

import (
	"fmt"
	"os"
	"sort"

	"verif/harness"
)

type checkFn func(run *harness.Run) int

var registry = map[string]checkFn{}

func main() {
	if len(os.Args) < 2 {
		var ids []string
		for id := range registry {
			ids = append(ids, id)
		}
		sort.Strings(ids)
		fmt.Println("usage: check <ID> [--tier quick|thorough] [--replay file]; ids:", ids)
		os.Exit(2)
	}
	id := os.Args[1]
	f, ok := registry[id]
	if !ok {
		fmt.Println("unknown check", id)
		os.Exit(2)
	}
	run := harness.NewRun(id, os.Args[2:])
	os.Exit(f(run))
}
