// simdev is a development driver for the sim engine (not a registered check).
package main

import (
	"flag"
	"fmt"
	"os"
	"sort"
	"strings"
	"sync"
	"time"

	"verif/sim"
)

func main() {
	cases := flag.Int("cases", 300, "")
	seed := flag.Int64("seed", 1, "")
	adv := flag.Bool("adv", false, "")
	steps := flag.Int("steps", 500, "")
	maxh := flag.Uint64("maxh", 2, "")
	one := flag.Int("one", -1, "run one case with trace")
	tail := flag.Bool("tail", false, "")
	wl := flag.String("wl", "dev", "")
	commitFail := flag.Bool("commitfail", false, "")
	commErr := flag.Bool("commerr", false, "")
	split := flag.Bool("split", false, "")
	weights := flag.String("weights", "", "strategy weights k=v,k=v")
	only := flag.String("only", "", "print only violations of this property in -one mode")
	flag.Parse()
	p := &sim.Profile{Workload: *wl, Adversary: *adv, HonestOnly: !*adv, MaxSteps: *steps, MaxH: *maxh, MinN: 4, MaxN: 7, Tail: *tail, CommitFailures: *commitFail, CommErrors: *commErr, SplitHandoff: *split}
	if *weights != "" {
		p.AdvWeights = map[string]int{}
		for _, kv := range strings.Split(*weights, ",") {
			var k string
			var v int
			parts := strings.SplitN(kv, "=", 2)
			k = parts[0]
			fmt.Sscan(parts[1], &v)
			p.AdvWeights[k] = v
		}
	}
	_ = only
	if *one >= 0 {
		p.KeepTrace = true
		r := sim.RunCase(*seed, p, *one)
		for i, s := range r.Trace {
			fmt.Printf("%4d %-8s %-4s <- %-4s %s\n", i, s.Kind, s.Node, s.From, s.Info)
		}
		fmt.Println(r.Cfg.Describe())
		for _, v := range r.Viol {
			fmt.Printf("step %d: %s\n", v.Step, v)
		}
		return
	}
	t0 := time.Now()
	total := map[string]int{}
	byRule := map[string][]int{}
	sample := map[string]string{}
	var mu sync.Mutex
	var wg sync.WaitGroup
	ch := make(chan int)
	steps2 := 0
	for k := 0; k < 14; k++ {
		wg.Add(1)
		go func() {
			defer wg.Done()
			for i := range ch {
				r := sim.RunCase(*seed, p, i)
				mu.Lock()
				steps2 += r.Steps
				for k, v := range r.Stats {
					total[k] += v
				}
				seen := map[string]bool{}
				for _, v := range r.Viol {
					key := v.Prop + "/" + v.Rule
					if !seen[key] {
						seen[key] = true
						byRule[key] = append(byRule[key], i)
						if _, ok := sample[key]; !ok {
							sample[key] = v.Detail
						}
					}
				}
				mu.Unlock()
			}
		}()
	}
	for i := 0; i < *cases; i++ {
		ch <- i
	}
	close(ch)
	wg.Wait()
	var keys []string
	for k := range total {
		keys = append(keys, k)
	}
	sort.Strings(keys)
	for _, k := range keys {
		fmt.Printf("  %-60s %d\n", k, total[k])
	}
	fmt.Printf("cases=%d steps=%d wall=%.1fs\n", *cases, steps2, time.Since(t0).Seconds())
	var rk []string
	for k := range byRule {
		rk = append(rk, k)
	}
	sort.Strings(rk)
	for _, k := range rk {
		c := byRule[k]
		sort.Ints(c)
		if len(c) > 6 {
			c = c[:6]
		}
		fmt.Printf("VIOL %-70s cases=%d e.g. %v\n      %s\n", k, len(byRule[k]), c, sample[k])
	}
	if len(rk) > 0 {
		os.Exit(1)
	}
}
