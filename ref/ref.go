// Package ref is the reference side of the oracles: plain-data views of wire
// messages and validity predicates written from the property texts. It uses the
// generated readers only to *read* fields; it shares no validation code with
// the library.
package ref

import (
	"bytes"
	"math/big"

	"github.com/orbs-network/lean-helix-go/services/interfaces"
	"github.com/orbs-network/lean-helix-go/spec/types/go/protocol"

	"verif/spi"
)

type MT = protocol.MessageType

const (
	PP = protocol.LEAN_HELIX_PREPREPARE
	P  = protocol.LEAN_HELIX_PREPARE
	C  = protocol.LEAN_HELIX_COMMIT
	NV = protocol.LEAN_HELIX_NEW_VIEW
	VC = protocol.LEAN_HELIX_VIEW_CHANGE
)

// Env is the envelope (union tag) of a LeanhelixContent.
type Env int

const (
	EnvPP Env = iota
	EnvP
	EnvC
	EnvVC
	EnvNV
	EnvNone
)

func (e Env) String() string {
	return [...]string{"PREPREPARE", "PREPARE", "COMMIT", "VIEW_CHANGE", "NEW_VIEW", "NONE"}[e]
}

// HeaderTypeOf is the header message type that belongs to an envelope.
func HeaderTypeOf(e Env) MT {
	switch e {
	case EnvPP:
		return PP
	case EnvP:
		return P
	case EnvC:
		return C
	case EnvVC:
		return VC
	case EnvNV:
		return NV
	}
	return protocol.LEAN_HELIX_RESERVED
}

type Sig struct {
	Id  string
	Sig []byte
}

type Ref struct { // a BlockRef
	Type MT
	Inst uint64
	H, V uint64
	Hash []byte
	Raw  []byte
	// Pad (builder side only): 1 = the two alignment bytes after the 16-bit message type carry garbage, 2 = four extra bytes
	// follow the last field. Either way every field reads back the same; only the bytes that get signed differ from the
	// canonical encoding.
	Pad int
}

type Proof struct {
	Raw      []byte
	PPRef    *Ref
	PPSender *Sig
	PRef     *Ref
	PSenders []Sig
}

type Vote struct { // ViewChangeMessageContent
	Type    MT
	Inst    uint64
	H, V    uint64
	Proof   *Proof // nil when absent / empty
	HdrRaw  []byte
	Sender  Sig
	Raw     []byte
	keepRaw bool
}

// Msg is a fully decoded wire message.
type Msg struct {
	Env    Env
	Type   MT // header message type
	Inst   uint64
	H, V   uint64
	Hash   []byte // PP/P/C; for NV the embedded proposal's hash
	HdrRaw []byte
	Sender Sig
	Share  []byte  // C
	Vote   *Vote   // VC
	Votes  []*Vote // NV
	EmbPP  *Ref    // NV: embedded preprepare header
	EmbSig *Sig    // NV: embedded preprepare sender
	Block  *spi.Blk
	RawMsg *interfaces.ConsensusRawMessage
}

func refOf(b *protocol.BlockRef) *Ref {
	if b == nil || len(b.Raw()) == 0 {
		return nil
	}
	return &Ref{Type: b.MessageType(), Inst: uint64(b.InstanceId()), H: uint64(b.BlockHeight()), V: uint64(b.View()), Hash: append([]byte{}, b.BlockHash()...), Raw: b.Raw()}
}

func sigOf(s *protocol.SenderSignature) *Sig {
	if s == nil || len(s.Raw()) == 0 {
		return nil
	}
	return &Sig{Id: string(s.MemberId()), Sig: append([]byte{}, s.Signature()...)}
}

func proofOf(p *protocol.PreparedProof) *Proof {
	if p == nil || len(p.Raw()) == 0 {
		return nil
	}
	out := &Proof{Raw: p.Raw(), PPRef: refOf(p.PreprepareBlockRef()), PPSender: sigOf(p.PreprepareSender()), PRef: refOf(p.PrepareBlockRef())}
	it := p.PrepareSendersIterator()
	for it.HasNext() {
		if s := sigOf(it.NextPrepareSenders()); s != nil {
			out.PSenders = append(out.PSenders, *s)
		} else {
			out.PSenders = append(out.PSenders, Sig{})
		}
	}
	return out
}

func VoteOf(c *protocol.ViewChangeMessageContent) *Vote {
	if c == nil || len(c.Raw()) == 0 {
		return nil
	}
	h := c.SignedHeader()
	v := &Vote{Type: h.MessageType(), Inst: uint64(h.InstanceId()), H: uint64(h.BlockHeight()), V: uint64(h.View()), Proof: proofOf(h.PreparedProof()), HdrRaw: h.Raw(), Raw: c.Raw()}
	if s := sigOf(c.Sender()); s != nil {
		v.Sender = *s
	}
	return v
}

// Decode parses a raw message completely; ok=false when the bytes cannot be
// read (reader panic, unknown union tag).
func Decode(raw *interfaces.ConsensusRawMessage) (m *Msg, ok bool) {
	defer func() {
		if r := recover(); r != nil {
			m, ok = nil, false
		}
	}()
	if raw == nil {
		return nil, false
	}
	r := protocol.LeanhelixContentReader(raw.Content)
	m = &Msg{RawMsg: raw, Block: spi.AsBlk(raw.Block), Env: EnvNone}
	setRef := func(b *protocol.BlockRef, s *protocol.SenderSignature) {
		m.Type, m.Inst, m.H, m.V = b.MessageType(), uint64(b.InstanceId()), uint64(b.BlockHeight()), uint64(b.View())
		m.Hash = append([]byte{}, b.BlockHash()...)
		m.HdrRaw = b.Raw()
		if sg := sigOf(s); sg != nil {
			m.Sender = *sg
		}
	}
	switch {
	case r.IsMessagePreprepareMessage():
		m.Env = EnvPP
		c := r.PreprepareMessage()
		setRef(c.SignedHeader(), c.Sender())
	case r.IsMessagePrepareMessage():
		m.Env = EnvP
		c := r.PrepareMessage()
		setRef(c.SignedHeader(), c.Sender())
	case r.IsMessageCommitMessage():
		m.Env = EnvC
		c := r.CommitMessage()
		setRef(c.SignedHeader(), c.Sender())
		m.Share = append([]byte{}, c.Share()...)
	case r.IsMessageViewChangeMessage():
		m.Env = EnvVC
		c := r.ViewChangeMessage()
		m.Vote = VoteOf(c)
		if m.Vote == nil {
			return nil, false
		}
		m.Type, m.Inst, m.H, m.V, m.HdrRaw, m.Sender = m.Vote.Type, m.Vote.Inst, m.Vote.H, m.Vote.V, m.Vote.HdrRaw, m.Vote.Sender
	case r.IsMessageNewViewMessage():
		m.Env = EnvNV
		c := r.NewViewMessage()
		h := c.SignedHeader()
		m.Type, m.Inst, m.H, m.V, m.HdrRaw = h.MessageType(), uint64(h.InstanceId()), uint64(h.BlockHeight()), uint64(h.View()), h.Raw()
		if sg := sigOf(c.Sender()); sg != nil {
			m.Sender = *sg
		}
		it := h.ViewChangeConfirmationsIterator()
		for it.HasNext() {
			m.Votes = append(m.Votes, VoteOf(it.NextViewChangeConfirmations()))
		}
		if pp := c.Message(); pp != nil && len(pp.Raw()) > 0 {
			m.EmbPP = refOf(pp.SignedHeader())
			m.EmbSig = sigOf(pp.Sender())
			if m.EmbPP != nil {
				m.Hash = m.EmbPP.Hash
			}
		}
	default:
		return nil, false
	}
	return m, true
}

// ---------------------------------------------------------------- committees

type Committee struct {
	Members []interfaces.CommitteeMember
	idx     map[string]int
	W, F, Q *big.Int
}

func NewCommittee(members []interfaces.CommitteeMember) *Committee {
	c := &Committee{Members: members, idx: map[string]int{}, W: new(big.Int)}
	for i, m := range members {
		if _, dup := c.idx[string(m.Id)]; !dup {
			c.idx[string(m.Id)] = i
		}
		c.W.Add(c.W, new(big.Int).SetUint64(uint64(m.Weight)))
	}
	c.F = new(big.Int)
	if c.W.Sign() > 0 {
		c.F.Div(new(big.Int).Sub(c.W, big.NewInt(1)), big.NewInt(3))
	}
	c.Q = new(big.Int).Sub(c.W, c.F)
	return c
}

func (c *Committee) N() int { return len(c.Members) }

func (c *Committee) Has(id string) bool { _, ok := c.idx[id]; return ok }

func (c *Committee) Leader(view uint64) string {
	return string(c.Members[view%uint64(len(c.Members))].Id)
}

// Weight of the distinct members among ids.
func (c *Committee) Weight(ids []string) *big.Int {
	seen := map[string]bool{}
	w := new(big.Int)
	for _, id := range ids {
		i, ok := c.idx[id]
		if !ok || seen[id] {
			continue
		}
		seen[id] = true
		w.Add(w, new(big.Int).SetUint64(uint64(c.Members[i].Weight)))
	}
	return w
}

func (c *Committee) IsQuorum(ids []string) bool { return c.Weight(ids).Cmp(c.Q) >= 0 }
func (c *Committee) AboveF(ids []string) bool   { return c.Weight(ids).Cmp(c.F) > 0 }

// ---------------------------------------------------------------- validity predicates

// ProofValid: valid signatures over one (instance, height, earlier view, hash) by
// that view's leader and by distinct other committee members, together reaching
// quorum weight.
func ProofValid(k *spi.Keys, c *Committee, inst, h, targetView uint64, p *Proof) bool {
	if p == nil {
		return true // no proof: nothing to validate
	}
	if p.PPRef == nil || p.PRef == nil || p.PPSender == nil {
		return false
	}
	if p.PPRef.Type != PP || p.PRef.Type != P {
		return false
	}
	if p.PPRef.Inst != inst || p.PRef.Inst != inst {
		return false
	}
	if p.PPRef.H != h || p.PRef.H != h {
		return false
	}
	if p.PPRef.V >= targetView || p.PRef.V != p.PPRef.V {
		return false
	}
	if !bytes.Equal(p.PPRef.Hash, p.PRef.Hash) {
		return false
	}
	leader := c.Leader(p.PPRef.V)
	if p.PPSender.Id != leader || !k.VerifyCM(leader, h, p.PPRef.Raw, p.PPSender.Sig) {
		return false
	}
	ids := []string{leader}
	seen := map[string]bool{}
	for _, s := range p.PSenders {
		if s.Id == leader || !c.Has(s.Id) || seen[s.Id] {
			return false
		}
		seen[s.Id] = true
		if !k.VerifyCM(s.Id, h, p.PRef.Raw, s.Sig) {
			return false
		}
		ids = append(ids, s.Id)
	}
	return c.IsQuorum(ids)
}

// VoteAuthentic: the vote is a VIEW_CHANGE for exactly (inst, h, v), from a
// committee member, with a valid signature over its own header.
func VoteAuthentic(k *spi.Keys, c *Committee, inst, h, v uint64, vt *Vote) bool {
	if vt == nil || vt.Type != VC || vt.Inst != inst || vt.H != h || vt.V != v {
		return false
	}
	if !c.Has(vt.Sender.Id) {
		return false
	}
	return k.VerifyCM(vt.Sender.Id, h, vt.HdrRaw, vt.Sender.Sig)
}

// NewViewVerdict explains why a NEW_VIEW is or is not a valid certificate.
type NewViewVerdict struct {
	Valid        bool
	Why          string
	LockedHash   []byte // hash of the highest valid proof among authentic votes (nil: none)
	LockedView   uint64
	AuthWeightOK bool
}

// NewViewValid is the reference NEW_VIEW validator of C07: signed by leader(v);
// authentic votes for exactly (inst,h,v) from pairwise-distinct members reaching
// quorum weight; embedded proposal is a PREPREPARE for (inst,h,v) signed by the
// leader; the proposal's hash equals the hash of the highest valid prepared
// proof among those votes (if any) and the attached block hashes to it.
// Whether a fresh proposal was consumer-validated is checked by the caller.
func NewViewValid(k *spi.Keys, c *Committee, inst uint64, m *Msg) NewViewVerdict {
	if m == nil || m.Env != EnvNV || m.Type != NV || m.Inst != inst {
		return NewViewVerdict{Why: "not a NEW_VIEW of this instance"}
	}
	leader := c.Leader(m.V)
	if m.Sender.Id != leader || !k.VerifyCM(leader, m.H, m.HdrRaw, m.Sender.Sig) {
		return NewViewVerdict{Why: "not signed by the leader of the view"}
	}
	var ids []string
	seen := map[string]bool{}
	var lockedHash []byte
	lockedView := uint64(0)
	haveLock := false
	for _, vt := range m.Votes {
		if !VoteAuthentic(k, c, inst, m.H, m.V, vt) || seen[vt.Sender.Id] {
			continue
		}
		seen[vt.Sender.Id] = true
		ids = append(ids, vt.Sender.Id)
		if vt.Proof != nil && ProofValid(k, c, inst, m.H, m.V, vt.Proof) {
			if !haveLock || vt.Proof.PPRef.V > lockedView {
				haveLock, lockedView, lockedHash = true, vt.Proof.PPRef.V, vt.Proof.PPRef.Hash
			}
		}
	}
	out := NewViewVerdict{LockedView: lockedView}
	if haveLock {
		out.LockedHash = lockedHash
	}
	if !c.IsQuorum(ids) {
		out.Why = "authentic distinct votes below quorum weight"
		return out
	}
	out.AuthWeightOK = true
	if m.EmbPP == nil || m.EmbSig == nil || m.EmbPP.Type != PP || m.EmbPP.Inst != inst || m.EmbPP.H != m.H || m.EmbPP.V != m.V {
		out.Why = "embedded proposal is not a PREPREPARE for this (instance,height,view)"
		return out
	}
	if m.EmbSig.Id != leader || !k.VerifyCM(leader, m.H, m.EmbPP.Raw, m.EmbSig.Sig) {
		out.Why = "embedded proposal not signed by the leader"
		return out
	}
	if m.Block == nil || !bytes.Equal(spi.HashOf(m.Block), m.EmbPP.Hash) {
		out.Why = "attached block does not hash to the proposed hash"
		return out
	}
	if haveLock && !bytes.Equal(lockedHash, m.EmbPP.Hash) {
		out.Why = "proposal is not the block of the highest valid prepared proof"
		return out
	}
	out.Valid = true
	return out
}
