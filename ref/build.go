package ref

import (
	"github.com/orbs-network/lean-helix-go/services/interfaces"
	"github.com/orbs-network/lean-helix-go/spec/types/go/primitives"
	"github.com/orbs-network/lean-helix-go/spec/types/go/protocol"
)

// Builders from plain data: the adversary and the generators describe a message
// as plain structs (possibly inconsistent on purpose) and encode it here.

func (r *Ref) Builder() *protocol.BlockRefBuilder {
	if r == nil {
		return nil
	}
	b := &protocol.BlockRefBuilder{MessageType: r.Type, InstanceId: primitives.InstanceId(r.Inst), BlockHeight: primitives.BlockHeight(r.H), View: primitives.View(r.V), BlockHash: r.Hash}
	if r.Pad != 0 {
		raw := append([]byte{}, b.Build().Raw()...)
		if r.Pad == 1 && len(raw) >= 12 {
			raw[10], raw[11] = 0xEE, 0xFF
		} else {
			raw = append(raw, 0xAB, 0xCD, 0xEF, 0x01)
		}
		return protocol.BlockRefBuilderFromRaw(raw)
	}
	return b
}

// Bytes encodes the block ref (what gets signed).
func (r *Ref) Bytes() []byte { return r.Builder().Build().Raw() }

func (s *Sig) Builder() *protocol.SenderSignatureBuilder {
	if s == nil {
		return nil
	}
	return &protocol.SenderSignatureBuilder{MemberId: primitives.MemberId(s.Id), Signature: s.Sig}
}

func (p *Proof) Builder() *protocol.PreparedProofBuilder {
	if p == nil {
		return nil
	}
	b := &protocol.PreparedProofBuilder{PreprepareBlockRef: p.PPRef.Builder(), PreprepareSender: p.PPSender.Builder(), PrepareBlockRef: p.PRef.Builder()}
	for i := range p.PSenders {
		b.PrepareSenders = append(b.PrepareSenders, p.PSenders[i].Builder())
	}
	return b
}

func (v *Vote) HeaderBuilder() *protocol.ViewChangeHeaderBuilder {
	return &protocol.ViewChangeHeaderBuilder{MessageType: v.Type, InstanceId: primitives.InstanceId(v.Inst), BlockHeight: primitives.BlockHeight(v.H), View: primitives.View(v.V), PreparedProof: v.Proof.Builder()}
}

// HeaderBytes encodes the vote header (what gets signed).
func (v *Vote) HeaderBytes() []byte { return v.HeaderBuilder().Build().Raw() }

func (v *Vote) Builder() *protocol.ViewChangeMessageContentBuilder {
	return &protocol.ViewChangeMessageContentBuilder{SignedHeader: v.HeaderBuilder(), Sender: v.Sender.Builder()}
}

// NVHeaderBuilder encodes a NEW_VIEW header from plain votes.
func NVHeaderBuilder(typ MT, inst, h, v uint64, votes []*Vote) *protocol.NewViewHeaderBuilder {
	hb := &protocol.NewViewHeaderBuilder{MessageType: typ, InstanceId: primitives.InstanceId(inst), BlockHeight: primitives.BlockHeight(h), View: primitives.View(v)}
	for _, vt := range votes {
		if vt == nil {
			continue
		}
		if vt.Raw != nil && vt.keepRaw {
			hb.ViewChangeConfirmations = append(hb.ViewChangeConfirmations, protocol.ViewChangeMessageContentBuilderFromRaw(vt.Raw))
		} else {
			hb.ViewChangeConfirmations = append(hb.ViewChangeConfirmations, vt.Builder())
		}
	}
	return hb
}

// KeepRaw makes NVHeaderBuilder embed the vote's original bytes.
func (v *Vote) KeepRaw() *Vote { c := *v; c.keepRaw = true; return &c }

func wrap(env Env, content []byte, block interfaces.Block) *interfaces.ConsensusRawMessage {
	b := &protocol.LeanhelixContentBuilder{}
	switch env {
	case EnvPP:
		b.Message = protocol.LEANHELIX_CONTENT_MESSAGE_PREPREPARE_MESSAGE
		b.PreprepareMessage = protocol.PreprepareContentBuilderFromRaw(content)
	case EnvP:
		b.Message = protocol.LEANHELIX_CONTENT_MESSAGE_PREPARE_MESSAGE
		b.PrepareMessage = protocol.PrepareContentBuilderFromRaw(content)
	case EnvC:
		b.Message = protocol.LEANHELIX_CONTENT_MESSAGE_COMMIT_MESSAGE
		b.CommitMessage = protocol.CommitContentBuilderFromRaw(content)
	case EnvVC:
		b.Message = protocol.LEANHELIX_CONTENT_MESSAGE_VIEW_CHANGE_MESSAGE
		b.ViewChangeMessage = protocol.ViewChangeMessageContentBuilderFromRaw(content)
	case EnvNV:
		b.Message = protocol.LEANHELIX_CONTENT_MESSAGE_NEW_VIEW_MESSAGE
		b.NewViewMessage = protocol.NewViewMessageContentBuilderFromRaw(content)
	}
	return &interfaces.ConsensusRawMessage{Content: b.Build().Raw(), Block: block}
}

// RawBlockRefMsg builds a PREPREPARE / PREPARE / COMMIT envelope around a block ref.
func RawBlockRefMsg(env Env, hdr *Ref, sender Sig, share []byte, block interfaces.Block) *interfaces.ConsensusRawMessage {
	switch env {
	case EnvPP:
		c := (&protocol.PreprepareContentBuilder{SignedHeader: hdr.Builder(), Sender: sender.Builder()}).Build()
		return wrap(EnvPP, c.Raw(), block)
	case EnvP:
		c := (&protocol.PrepareContentBuilder{SignedHeader: hdr.Builder(), Sender: sender.Builder()}).Build()
		return wrap(EnvP, c.Raw(), nil)
	case EnvC:
		c := (&protocol.CommitContentBuilder{SignedHeader: hdr.Builder(), Sender: sender.Builder(), Share: share}).Build()
		return wrap(EnvC, c.Raw(), nil)
	}
	return nil
}

func RawVoteMsg(v *Vote, block interfaces.Block) *interfaces.ConsensusRawMessage {
	return wrap(EnvVC, v.Builder().Build().Raw(), block)
}

// RawNewViewMsg builds a NEW_VIEW from plain parts.
func RawNewViewMsg(typ MT, inst, h, v uint64, votes []*Vote, sender Sig, embPP *Ref, embSig *Sig, block interfaces.Block) *interfaces.ConsensusRawMessage {
	nb := &protocol.NewViewMessageContentBuilder{SignedHeader: NVHeaderBuilder(typ, inst, h, v, votes), Sender: sender.Builder()}
	if embPP != nil {
		nb.Message = &protocol.PreprepareContentBuilder{SignedHeader: embPP.Builder(), Sender: embSig.Builder()}
	}
	return wrap(EnvNV, nb.Build().Raw(), block)
}

// NVHeaderBytes is what the NEW_VIEW sender signs.
func NVHeaderBytes(typ MT, inst, h, v uint64, votes []*Vote) []byte {
	return NVHeaderBuilder(typ, inst, h, v, votes).Build().Raw()
}

// Rebuild re-encodes a decoded message from its (possibly mutated) plain fields,
// into envelope env (which may differ from m.Env for PP/P/C).
func Rebuild(m *Msg, env Env) *interfaces.ConsensusRawMessage {
	var blk interfaces.Block
	if m.Block != nil {
		blk = m.Block
	}
	switch env {
	case EnvPP, EnvP, EnvC:
		hdr := &Ref{Type: m.Type, Inst: m.Inst, H: m.H, V: m.V, Hash: m.Hash}
		if env != EnvPP {
			blk = nil
		}
		return RawBlockRefMsg(env, hdr, m.Sender, m.Share, blk)
	case EnvVC:
		if m.Vote == nil {
			return nil
		}
		vt := *m.Vote
		vt.Type, vt.Inst, vt.H, vt.V, vt.Sender = m.Type, m.Inst, m.H, m.V, m.Sender
		return RawVoteMsg(&vt, blk)
	case EnvNV:
		return RawNewViewMsg(m.Type, m.Inst, m.H, m.V, m.Votes, m.Sender, m.EmbPP, m.EmbSig, blk)
	}
	return nil
}
