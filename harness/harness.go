// Package harness holds what every check shares: tiers and seeds, evidence
// files, the known-findings list and the verdict/exit-code discipline.
package harness

import (
	"bufio"
	"encoding/json"
	"fmt"
	"os"
	"path/filepath"
	"sort"
	"strconv"
	"strings"
	"time"
)

// Root is the framework directory: the working directory of the driver (the ./check script cds into
// its own directory, which is /verif for the registered commands and a snapshot for `vp run` jobs).
var Root = func() string {
	if d, err := os.Getwd(); err == nil {
		if _, e := os.Stat(filepath.Join(d, "known_findings.jsonl")); e == nil {
			return d
		}
	}
	return "/verif"
}()

// OutRoot is where evidence and replay files go (VERIF_OUT is used by the mutation self-test only).
func OutRoot() string {
	if d := os.Getenv("VERIF_OUT"); d != "" {
		return d
	}
	return Root
}

type Run struct {
	Prop   string
	Tier   string // quick | thorough
	Seed   int64
	Start  time.Time
	Replay string
}

func NewRun(prop string, args []string) *Run {
	r := &Run{Prop: prop, Tier: "quick", Seed: 1, Start: time.Now()}
	if t := os.Getenv("VERIF_TIER"); t == "quick" || t == "thorough" {
		r.Tier = t
	}
	if s := os.Getenv("VERIF_SEED"); s != "" {
		if v, err := strconv.ParseInt(s, 10, 64); err == nil {
			r.Seed = v
		}
	}
	for i := 0; i < len(args); i++ {
		switch args[i] {
		case "--tier":
			if i+1 < len(args) {
				r.Tier = args[i+1]
				i++
			}
		case "--replay":
			if i+1 < len(args) {
				r.Replay = args[i+1]
				i++
			}
		case "quick", "thorough":
			r.Tier = args[i]
		}
	}
	return r
}

func (r *Run) Thorough() bool { return r.Tier == "thorough" }

// Pick returns q in the quick tier and t in the thorough tier.
func (r *Run) Pick(q, t int) int {
	if r.Thorough() {
		return t
	}
	return q
}

// ---------------------------------------------------------------- findings

// Finding is one violation reported by a check's oracle.
type Finding struct {
	Prop   string
	Rule   string // fingerprint: monitor rule + discriminating shape
	Taint  string // known findings triggered earlier in the same execution
	Detail string
	Replay string
}

type Known struct {
	Status   string `json:"status"` // known | fixed
	Property string `json:"property"`
	Rule     string `json:"rule"`
	Taint    string `json:"taint"` // when set, the violation must carry this taint
	Line     string `json:"line"`
	What     string `json:"what"`
}

func LoadKnown() []Known {
	f, err := os.Open(filepath.Join(Root, "known_findings.jsonl"))
	if err != nil {
		return nil
	}
	defer f.Close()
	var out []Known
	sc := bufio.NewScanner(f)
	sc.Buffer(make([]byte, 1<<20), 1<<20)
	for sc.Scan() {
		line := strings.TrimSpace(sc.Text())
		if line == "" {
			continue
		}
		var k Known
		if json.Unmarshal([]byte(line), &k) == nil {
			out = append(out, k)
		}
	}
	return out
}

// Match returns the known (not fixed) finding that lists f, if any.
func Match(known []Known, f *Finding) *Known {
	for i := range known {
		k := &known[i]
		if k.Status != "known" || k.Property != f.Prop || k.Rule != f.Rule {
			continue
		}
		if k.Taint != "" && !strings.Contains("+"+f.Taint+"+", "+"+k.Taint+"+") {
			continue
		}
		if k.Taint == "" && f.Taint != "" {
			// an entry without taint lists the root defect itself; it also covers it when other known findings fired
		}
		return k
	}
	return nil
}

// ---------------------------------------------------------------- evidence

type Evidence struct {
	PropertyID  string                 `json:"property_id"`
	Tier        string                 `json:"tier"`
	Seed        int64                  `json:"seed"`
	Level       string                 `json:"level"`
	Coverage    map[string]interface{} `json:"coverage"`
	Assumptions []string               `json:"assumptions"`
	WallS       float64                `json:"wall_s"`
	Violations  int                    `json:"violations"`
}

func (r *Run) WriteEvidence(level string, cov map[string]interface{}, assumptions []string, violations int) {
	ev := Evidence{PropertyID: r.Prop, Tier: r.Tier, Seed: r.Seed, Level: level, Coverage: cov, Assumptions: assumptions, WallS: time.Since(r.Start).Seconds(), Violations: violations}
	os.MkdirAll(filepath.Join(OutRoot(), "evidence"), 0o755)
	b, _ := json.MarshalIndent(ev, "", " ")
	os.WriteFile(filepath.Join(OutRoot(), "evidence", r.Prop+".json"), append(b, '\n'), 0o644)
}

// ---------------------------------------------------------------- verdict

// Conclude prints KNOWN-FINDING / VIOLATION / INCONCLUSIVE lines and returns the exit code.
func (r *Run) Conclude(findings []Finding, inconclusive []string) int {
	known := LoadKnown()
	type agg struct {
		k      *Known
		n      int
		replay string
	}
	kn := map[string]*agg{}
	var unlisted []Finding
	for i := range findings {
		f := &findings[i]
		if f.Prop != r.Prop {
			continue
		}
		if k := Match(known, f); k != nil {
			key := k.Property + "/" + k.Rule + "/" + k.Taint
			a, ok := kn[key]
			if !ok {
				a = &agg{k: k, replay: f.Replay}
				kn[key] = a
			}
			a.n++
			continue
		}
		unlisted = append(unlisted, *f)
	}
	var keys []string
	for k := range kn {
		keys = append(keys, k)
	}
	sort.Strings(keys)
	for _, k := range keys {
		a := kn[k]
		fmt.Printf("KNOWN-FINDING: property=%s %s (rule=%s%s; seen %d times in this run, e.g. replay=%s)\n", a.k.Property, a.k.What, a.k.Rule, taintSuffix(a.k.Taint), a.n, a.replay)
	}
	if len(unlisted) > 0 {
		seen := map[string]bool{}
		for _, f := range unlisted {
			key := f.Rule + "|" + f.Taint
			if seen[key] {
				continue
			}
			seen[key] = true
			fmt.Printf("VIOLATION property=%s replay=%s\n", f.Prop, f.Replay)
			fmt.Printf("  rule=%s%s\n  %s\n", f.Rule, taintSuffix(f.Taint), f.Detail)
		}
		return 1
	}
	if len(inconclusive) > 0 {
		for _, s := range inconclusive {
			fmt.Printf("INCONCLUSIVE property=%s %s\n", r.Prop, s)
		}
		return 3
	}
	fmt.Printf("OK property=%s tier=%s seed=%d wall=%.1fs\n", r.Prop, r.Tier, r.Seed, time.Since(r.Start).Seconds())
	return 0
}

func taintSuffix(t string) string {
	if t == "" {
		return ""
	}
	return " after:" + t
}

// ReplayPath returns /verif/replays/<prop>/<name>.json (directory created).
func ReplayPath(prop, name string) string {
	d := filepath.Join(OutRoot(), "replays", prop)
	os.MkdirAll(d, 0o755)
	return filepath.Join(d, name+".json")
}

func WriteJSON(path string, v interface{}) {
	b, _ := json.MarshalIndent(v, "", " ")
	os.WriteFile(path, append(b, '\n'), 0o644)
}
